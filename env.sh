# sourced by vcheck and by hand: offline Go environment for the harness
export GOFLAGS=-mod=mod GOPROXY=off GOSUMDB=off GOTOOLCHAIN=local
