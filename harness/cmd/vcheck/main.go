// vcheck is the driver of the verification harness: it rebuilds the property
// binaries against /repo's working tree, runs the regress corpus and the rapid
// shards as supervised child processes, merges their statistics into the
// evidence file and prints VIOLATION / KNOWN-FINDING lines.
//
//	vcheck run <Cxx> [--tier quick|thorough]
//	vcheck replay <case file>
//	vcheck build
//
// exit 0 = held on everything explored, 1 = violation, 2 = inconclusive.
package main

import (
	"bytes"
	"encoding/binary"
	"encoding/json"
	"fmt"
	"os"
	"os/exec"
	"path/filepath"
	"regexp"
	"sort"
	"strconv"
	"strings"
	"sync"
	"syscall"
	"time"
)

// root is the directory holding MANIFEST.json, harness/, out/ and evidence/ (the launcher exports its own location).
var root = func() string {
	if r := os.Getenv("VERIF_ROOT"); r != "" {
		return r
	}
	return "/verif"
}()

type tierCfg struct {
	Shards   int
	Checks   int      // rapid checks per shard
	TimeoutS int      // wall clock cap per shard
	Env      []string // extra environment for the shards
	MemGB    int      // address-space cap per shard (0 = default 24)
}

type propCfg struct {
	Test     string // test function name
	Sweep    string // optional test function that enumerates a finite sub-domain (sharded like the rapid test)
	Race     bool
	Quick    tierCfg
	Thorough tierCfg
	Rule     string
	Assume   []string
	// EssentialClasses must all be observed, otherwise the run is inconclusive (generator regression).
	EssentialClasses []string
}

type shardStats struct {
	Property     string            `json:"property"`
	Evaluations  int64             `json:"evaluations"`
	Cases        int64             `json:"cases"`
	NonTrivial   int64             `json:"nontrivial_total"`
	Classes      map[string]int64  `json:"classes"`
	Known        map[string]int64  `json:"known"`
	KnownSample  map[string]string `json:"known_sample"`
	Programs     int64             `json:"programs"`
	Samples      []json.RawMessage `json:"samples"`
	Failed       bool              `json:"failed"`
	Inconclusive []string          `json:"inconclusive"`
}

type finding struct {
	ID       string   `json:"id"`
	Property string   `json:"property"`
	Status   string   `json:"status"` // "known"
	What     string   `json:"what"`
	Also     []string `json:"also"`
}

type findingsFile struct {
	Findings []finding `json:"findings"`
	Fixed    []string  `json:"fixed"`
}

func loadFindings() findingsFile {
	var f findingsFile
	b, err := os.ReadFile(filepath.Join(root, "known_findings.json"))
	if err == nil {
		json.Unmarshal(b, &f)
	}
	return f
}

func goEnv() []string {
	env := os.Environ()
	env = append(env, "GOFLAGS=-mod=mod", "GOPROXY=off", "GOSUMDB=off", "GOTOOLCHAIN=local")
	return env
}

func binPath(race bool) string {
	if race {
		return filepath.Join(root, "out", "bin", "props.race.test")
	}
	return filepath.Join(root, "out", "bin", "props.test")
}

// build compiles the property binary from /repo's current working tree.
func build(race bool) error {
	os.MkdirAll(filepath.Join(root, "out", "bin"), 0o755)
	args := []string{"test", "-c", "-tags", "verif", "-o", binPath(race)}
	if race {
		args = append(args, "-race")
	}
	args = append(args, "./props")
	cmd := exec.Command("go", args...)
	cmd.Dir = filepath.Join(root, "harness")
	cmd.Env = goEnv()
	var out bytes.Buffer
	cmd.Stdout, cmd.Stderr = &out, &out
	// builds of several checks may run concurrently; serialise them with a lock file
	lk, err := os.OpenFile(filepath.Join(root, "out", "bin", ".lock"), os.O_CREATE|os.O_RDWR, 0o644)
	if err == nil {
		syscall.Flock(int(lk.Fd()), syscall.LOCK_EX)
		defer lk.Close()
	}
	if err := cmd.Run(); err != nil {
		return fmt.Errorf("build failed: %v\n%s", err, out.String())
	}
	return nil
}

type shardResult struct {
	idx      int
	dir      string
	exit     int
	timedOut bool
	output   string
	wall     float64
}

var crashRe = regexp.MustCompile(`(?m)^(fatal error: |unexpected fault address|SIGSEGV|SIGBUS|SIGILL|panic: |runtime: |WARNING: DATA RACE)`)

func runChild(bin string, args []string, env []string, dir string, timeout time.Duration, memGB int) (int, bool, string) {
	if memGB == 0 {
		memGB = 24
	}
	// ulimit -v through sh so that a runaway allocation ends the child, not the sandbox
	quoted := make([]string, 0, len(args)+1)
	quoted = append(quoted, shellQuote(bin))
	for _, a := range args {
		quoted = append(quoted, shellQuote(a))
	}
	script := fmt.Sprintf("ulimit -v %d; exec %s", memGB*1024*1024, strings.Join(quoted, " "))
	cmd := exec.Command("sh", "-c", script)
	cmd.Dir = dir
	cmd.Env = env
	cmd.SysProcAttr = &syscall.SysProcAttr{Setpgid: true}
	var out bytes.Buffer
	cmd.Stdout, cmd.Stderr = &out, &out
	if err := cmd.Start(); err != nil {
		return 2, false, err.Error()
	}
	done := make(chan error, 1)
	go func() { done <- cmd.Wait() }()
	timedOut := false
	select {
	case <-done:
	case <-time.After(timeout):
		timedOut = true
		syscall.Kill(-cmd.Process.Pid, syscall.SIGKILL)
		<-done
	}
	code := 0
	if cmd.ProcessState != nil {
		code = cmd.ProcessState.ExitCode()
	}
	o := out.String()
	if len(o) > 200000 {
		o = o[:100000] + "\n…\n" + o[len(o)-100000:]
	}
	return code, timedOut, o
}

func shellQuote(s string) string { return "'" + strings.ReplaceAll(s, "'", `'\''`) + "'" }

func copyFile(src, dst string) error {
	b, err := os.ReadFile(src)
	if err != nil {
		return err
	}
	return os.WriteFile(dst, b, 0o644)
}

func main() {
	if len(os.Args) < 2 {
		fmt.Fprintln(os.Stderr, "usage: vcheck run <Cxx> [--tier quick|thorough] | replay <file> | build")
		os.Exit(2)
	}
	switch os.Args[1] {
	case "build":
		for _, race := range []bool{false, true} {
			if err := build(race); err != nil {
				fmt.Fprintln(os.Stderr, err)
				os.Exit(2)
			}
		}
	case "run":
		if len(os.Args) < 3 {
			os.Exit(2)
		}
		tier := os.Getenv("VERIF_TIER")
		for i, a := range os.Args {
			if a == "--tier" && i+1 < len(os.Args) {
				tier = os.Args[i+1]
			}
		}
		if tier != "thorough" {
			tier = "quick"
		}
		os.Exit(run(os.Args[2], tier))
	case "replay":
		if len(os.Args) < 3 {
			os.Exit(2)
		}
		os.Exit(replay(os.Args[2]))
	default:
		os.Exit(2)
	}
}

func replay(path string) int {
	abs, _ := filepath.Abs(path)
	b, err := os.ReadFile(abs)
	if err != nil {
		fmt.Fprintln(os.Stderr, err)
		return 2
	}
	var env struct {
		Prop string `json:"prop"`
	}
	json.Unmarshal(b, &env)
	cfg, ok := props[env.Prop]
	if !ok {
		fmt.Fprintf(os.Stderr, "unknown property %q in %s\n", env.Prop, abs)
		return 2
	}
	if err := build(cfg.Race); err != nil {
		fmt.Fprintln(os.Stderr, err)
		return 2
	}
	dir := filepath.Join(root, "out", "replay")
	os.MkdirAll(dir, 0o755)
	e := append(goEnv(), "VERIF_REPLAY="+abs, "VERIF_OUT="+dir, "VERIF_KNOWN="+filepath.Join(root, "known_findings.json"))
	e = append(e, cfg.Quick.Env...)
	code, timedOut, out := runChild(binPath(cfg.Race), []string{"-test.run", "^TestReplay$", "-test.timeout", "30m"}, e, dir, 31*time.Minute, 0)
	fmt.Print(out)
	if timedOut {
		return 2
	}
	if code != 0 {
		fmt.Printf("VIOLATION property=%s replay=%s\n", env.Prop, abs)
		return 1
	}
	return 0
}

func run(id, tier string) int {
	cfg, ok := props[id]
	if !ok {
		fmt.Fprintf(os.Stderr, "unknown property %s\n", id)
		return 2
	}
	t0 := time.Now()
	seed := int64(1)
	if v, err := strconv.ParseInt(os.Getenv("VERIF_SEED"), 10, 64); err == nil {
		seed = v
	}
	tc := cfg.Quick
	if tier == "thorough" {
		tc = cfg.Thorough
	}
	if v, err := strconv.Atoi(os.Getenv("VERIF_CHECKS")); err == nil {
		tc.Checks = v
	}
	if v, err := strconv.Atoi(os.Getenv("VERIF_SHARDS")); err == nil {
		tc.Shards = v
	}
	if err := build(cfg.Race); err != nil {
		fmt.Fprintln(os.Stderr, err)
		fmt.Printf("INCONCLUSIVE property=%s harness does not build against /repo\n", id)
		return 2
	}
	outDir := filepath.Join(root, "out", id, tier)
	os.RemoveAll(outDir)
	os.MkdirAll(outDir, 0o755)
	known := filepath.Join(root, "known_findings.json")
	baseEnv := append(goEnv(), "VERIF_TIER="+tier, "VERIF_KNOWN="+known, "VERIF_SEED="+strconv.FormatInt(seed, 10))
	baseEnv = append(baseEnv, tc.Env...)
	bin := binPath(cfg.Race)

	violations := []string{}
	inconclusive := []string{}

	// 1. regress corpus
	regDir := filepath.Join(root, "harness", "regress")
	rdir := filepath.Join(outDir, "regress")
	os.MkdirAll(rdir, 0o755)
	code, timedOut, out := runChild(bin, []string{"-test.run", "^TestReplay$", "-test.timeout", "20m"},
		append(append([]string{}, baseEnv...), "VERIF_REPLAY="+regDir, "VERIF_PROP="+id, "VERIF_OUT="+rdir), rdir, 21*time.Minute, tc.MemGB)
	os.WriteFile(filepath.Join(rdir, "output.txt"), []byte(out), 0o644)
	regressRun := 0
	for _, ln := range strings.Split(out, "\n") {
		if strings.HasPrefix(ln, "REPLAY ") {
			regressRun++
			f := strings.Fields(ln)
			if len(f) >= 3 && (f[2] == "VIOLATION" || f[2] == "LOADERROR") {
				violations = append(violations, f[1])
				fmt.Printf("regress: %s\n", ln)
			}
		}
	}
	if timedOut {
		inconclusive = append(inconclusive, "regress corpus timed out")
	} else if code != 0 && len(violations) == 0 {
		// crashed while replaying: attribute to the last file announced
		last := ""
		for _, ln := range strings.Split(out, "\n") {
			if strings.HasPrefix(ln, "REPLAY ") {
				last = strings.Fields(ln)[1]
			}
		}
		fmt.Printf("regress replay died (exit %d) after %s\n%s\n", code, last, tail(out, 40))
		inconclusive = append(inconclusive, "regress replay died")
	}

	// 2. rapid shards
	results := make([]shardResult, tc.Shards)
	var wg sync.WaitGroup
	sem := make(chan struct{}, 16)
	for i := 0; i < tc.Shards; i++ {
		wg.Add(1)
		go func(i int) {
			defer wg.Done()
			sem <- struct{}{}
			defer func() { <-sem }()
			dir := filepath.Join(outDir, fmt.Sprintf("shard%02d", i))
			os.MkdirAll(dir, 0o755)
			s := uint64(seed)*1000 + uint64(i) + 1
			shrink := "30s"
			if tier == "thorough" {
				shrink = "120s"
			}
			args := []string{"-test.run", "^" + cfg.Test + "$", "-test.timeout", "0", "-rapid.nofailfile",
				"-rapid.checks", strconv.Itoa(tc.Checks), "-rapid.seed", strconv.FormatUint(s, 10), "-rapid.shrinktime", shrink}
			env := append(append([]string{}, baseEnv...), "VERIF_OUT="+dir, fmt.Sprintf("VERIF_SHARD=%d", i), fmt.Sprintf("VERIF_NSHARDS=%d", tc.Shards))
			st := time.Now()
			code, to, out := runChild(bin, args, env, dir, time.Duration(tc.TimeoutS)*time.Second, tc.MemGB)
			os.WriteFile(filepath.Join(dir, "output.txt"), []byte(out), 0o644)
			results[i] = shardResult{idx: i, dir: dir, exit: code, timedOut: to, output: out, wall: time.Since(st).Seconds()}
		}(i)
	}
	wg.Wait()

	// 2b. exhaustive sweeps of finite sub-domains (thorough: complete; quick: the slice selected by the seed)
	type sweepReport struct {
		Name       string `json:"name"`
		Domain     string `json:"domain"`
		Evaluated  int64  `json:"evaluated"`
		DomainSize int64  `json:"domain_size"`
		Blocks     int    `json:"blocks"`
		Complete   bool   `json:"complete"`
		Sample     string `json:"sample"`
		Known      int64  `json:"known_finding_hits"`
		KnownEx    string `json:"known_finding_example,omitempty"`
	}
	sweeps := map[string]*sweepReport{}
	sweepOrder := []string{}
	var sweepEvaluated int64
	if cfg.Sweep != "" {
		sres := make([]shardResult, tc.Shards)
		for i := 0; i < tc.Shards; i++ {
			wg.Add(1)
			go func(i int) {
				defer wg.Done()
				dir := filepath.Join(outDir, fmt.Sprintf("sweep%02d", i))
				os.MkdirAll(dir, 0o755)
				args := []string{"-test.run", "^" + cfg.Sweep + "$", "-test.timeout", "0"}
				env := append(append([]string{}, baseEnv...), "VERIF_OUT="+dir, fmt.Sprintf("VERIF_SHARD=%d", i), fmt.Sprintf("VERIF_NSHARDS=%d", tc.Shards))
				code, to, out := runChild(bin, args, env, dir, time.Duration(tc.TimeoutS)*time.Second, tc.MemGB)
				os.WriteFile(filepath.Join(dir, "output.txt"), []byte(out), 0o644)
				sres[i] = shardResult{idx: i, dir: dir, exit: code, timedOut: to, output: out}
			}(i)
		}
		wg.Wait()
		for _, r := range sres {
			failFile := filepath.Join(r.dir, "fail.case.json")
			switch {
			case fileExists(failFile):
				dst := filepath.Join(outDir, fmt.Sprintf("violation-sweep%02d.case.json", r.idx))
				copyFile(failFile, dst)
				violations = append(violations, dst)
				fmt.Printf("sweep shard %d: %s\n", r.idx, firstFailureLine(r.output))
				continue
			case r.timedOut:
				inconclusive = append(inconclusive, fmt.Sprintf("sweep shard %d exceeded %ds", r.idx, tc.TimeoutS))
				continue
			case r.exit != 0:
				inconclusive = append(inconclusive, fmt.Sprintf("sweep shard %d exited %d", r.idx, r.exit))
				fmt.Printf("sweep shard %d exited %d:\n%s\n", r.idx, r.exit, tail(r.output, 30))
				continue
			}
			var reps []sweepReport
			if b, err := os.ReadFile(filepath.Join(r.dir, "sweep.json")); err == nil {
				json.Unmarshal(b, &reps)
			}
			if len(reps) == 0 {
				inconclusive = append(inconclusive, fmt.Sprintf("sweep shard %d wrote no report", r.idx))
			}
			for _, rp := range reps {
				m, ok := sweeps[rp.Name]
				if !ok {
					c := rp
					c.Evaluated, c.Blocks, c.Known = 0, 0, 0
					m = &c
					sweeps[rp.Name] = m
					sweepOrder = append(sweepOrder, rp.Name)
				}
				m.Evaluated += rp.Evaluated
				m.Blocks += rp.Blocks
				m.Known += rp.Known
				if m.KnownEx == "" {
					m.KnownEx = rp.KnownEx
				}
				m.Complete = m.Complete && rp.Complete
				sweepEvaluated += rp.Evaluated
			}
		}
	}
	sweepList := []sweepReport{}
	for _, n := range sweepOrder {
		m := sweeps[n]
		m.Complete = m.Complete && m.Evaluated == m.DomainSize
		sweepList = append(sweepList, *m)
	}

	skippedCases := []string{} // cases that could not be judged (worker deadline on a loaded machine)
	merged := shardStats{Property: id, Classes: map[string]int64{}, Known: map[string]int64{}, KnownSample: map[string]string{}}
	hashes := map[uint64]struct{}{}
	for _, r := range results {
		var st shardStats
		if b, err := os.ReadFile(filepath.Join(r.dir, "stats.json")); err == nil {
			json.Unmarshal(b, &st)
		}
		merged.Evaluations += st.Evaluations
		merged.Cases += st.Cases
		merged.NonTrivial += st.NonTrivial
		merged.Programs += st.Programs
		for _, msg := range st.Inconclusive {
			skippedCases = append(skippedCases, fmt.Sprintf("shard %d: %s", r.idx, msg))
		}
		for k, v := range st.Classes {
			merged.Classes[k] += v
		}
		for k, v := range st.Known {
			merged.Known[k] += v
			if _, ok := merged.KnownSample[k]; !ok {
				merged.KnownSample[k] = st.KnownSample[k]
			}
		}
		if len(merged.Samples) < 8 {
			for _, s := range st.Samples {
				if len(merged.Samples) < 8 {
					merged.Samples = append(merged.Samples, s)
				}
			}
		}
		if b, err := os.ReadFile(filepath.Join(r.dir, "hashes.bin")); err == nil {
			for j := 0; j+8 <= len(b); j += 8 {
				hashes[binary.LittleEndian.Uint64(b[j:])] = struct{}{}
			}
		}
		failFile := filepath.Join(r.dir, "fail.case.json")
		switch {
		case fileExists(failFile):
			dst := filepath.Join(outDir, fmt.Sprintf("violation-shard%02d.case.json", r.idx))
			copyFile(failFile, dst)
			violations = append(violations, dst)
			fmt.Printf("shard %d: %s\n", r.idx, firstFailureLine(r.output))
		case r.timedOut:
			// a hang is reported as inconclusive here; properties that own a hang rule (C07) handle it inside the test
			inconclusive = append(inconclusive, fmt.Sprintf("shard %d exceeded %ds", r.idx, tc.TimeoutS))
			fmt.Printf("shard %d timed out; last case in %s\n", r.idx, filepath.Join(r.dir, "journal.json"))
		case r.exit != 0:
			if crashRe.MatchString(r.output) && !strings.Contains(r.output, "out of memory") && !strings.Contains(r.output, "cannot allocate memory") {
				dst := filepath.Join(outDir, fmt.Sprintf("violation-crash-shard%02d.case.json", r.idx))
				if copyFile(filepath.Join(r.dir, "journal.json"), dst) == nil {
					violations = append(violations, dst)
					fmt.Printf("shard %d: process died (exit %d):\n%s\n", r.idx, r.exit, crashExcerpt(r.output))
					break
				}
			}
			inconclusive = append(inconclusive, fmt.Sprintf("shard %d exited %d without a failing case", r.idx, r.exit))
			fmt.Printf("shard %d exited %d:\n%s\n", r.idx, r.exit, tail(r.output, 30))
		default:
			// rapid reports "OK, passed N tests"; make sure the shard really did its share
			if st.Cases < int64(tc.Checks) {
				inconclusive = append(inconclusive, fmt.Sprintf("shard %d ran %d of %d cases", r.idx, st.Cases, tc.Checks))
			}
		}
	}

	// 3. essential classes
	for _, c := range cfg.EssentialClasses {
		if merged.Classes[c] == 0 {
			inconclusive = append(inconclusive, "generator never produced class "+c)
		}
	}

	// 4. evidence
	samples := merged.Samples
	if len(samples) == 0 {
		samples = []json.RawMessage{json.RawMessage(`"no non-trivial case was generated"`)}
	}
	classKeys := make([]string, 0, len(merged.Classes))
	for k := range merged.Classes {
		classKeys = append(classKeys, k)
	}
	sort.Strings(classKeys)
	ev := map[string]interface{}{
		"property_id": id,
		"tier":        tier,
		"seed":        seed,
		"level":       "exploration",
		"coverage": map[string]interface{}{
			"evaluations":         merged.Evaluations,
			"cases":               merged.Cases,
			"distinct_nontrivial": len(hashes),
			"nontrivial_total":    merged.NonTrivial,
			"rule":                cfg.Rule,
			"samples":             samples,
			"classes":             merged.Classes,
			"programs":            merged.Programs,
			"known_findings_hit":  merged.Known,
			"regress_cases":       regressRun,
			"shards":              tc.Shards,
			"checks_per_shard":    tc.Checks,
			"race_detector":       cfg.Race,
			"unjudged_cases":      skippedCases,
			"sweeps":              sweepList,
			"sweep_evaluations":   sweepEvaluated,
		},
		"assumptions": cfg.Assume,
		"wall_s":      time.Since(t0).Seconds(),
		"violations":  len(violations),
	}
	eb, _ := json.MarshalIndent(ev, "", " ")
	os.MkdirAll(filepath.Join(root, "evidence"), 0o755)
	os.WriteFile(filepath.Join(root, "evidence", id+".json"), eb, 0o644)

	// 5. verdict
	ff := loadFindings()
	for _, f := range ff.Findings {
		applies := f.Property == id
		for _, a := range f.Also {
			applies = applies || a == id
		}
		if applies && f.Status == "known" {
			fmt.Printf("KNOWN-FINDING: property=%s %s: %s (hit %d times this run)\n", id, f.ID, f.What, merged.Known[f.ID])
		}
	}
	fmt.Printf("%s %s: %d cases, %d evaluations, %d distinct non-trivial, %d programs, %.1fs\n", id, tier, merged.Cases, merged.Evaluations, len(hashes), merged.Programs, time.Since(t0).Seconds())
	if len(violations) > 0 {
		for _, v := range violations {
			fmt.Printf("VIOLATION property=%s replay=%s\n", id, v)
		}
		return 1
	}
	// A few unjudged cases do not make the run inconclusive (they are counted in the evidence); many do.
	for _, s := range skippedCases {
		fmt.Printf("UNJUDGED-CASE property=%s %s\n", id, s)
	}
	if int64(len(skippedCases)) > 2 && int64(len(skippedCases))*4 > merged.Cases {
		inconclusive = append(inconclusive, fmt.Sprintf("%d of %d cases could not be judged", len(skippedCases), merged.Cases))
	}
	if len(inconclusive) > 0 {
		for _, s := range inconclusive {
			fmt.Printf("INCONCLUSIVE property=%s %s\n", id, s)
		}
		return 2
	}
	return 0
}

func fileExists(p string) bool { _, err := os.Stat(p); return err == nil }

func tail(s string, n int) string {
	lines := strings.Split(strings.TrimRight(s, "\n"), "\n")
	if len(lines) > n {
		lines = lines[len(lines)-n:]
	}
	return strings.Join(lines, "\n")
}

func firstFailureLine(out string) string {
	for _, ln := range strings.Split(out, "\n") {
		if strings.Contains(ln, "violated:") {
			if len(ln) > 600 {
				ln = ln[:600] + "…"
			}
			return strings.TrimSpace(ln)
		}
	}
	return tail(out, 5)
}

func crashExcerpt(out string) string {
	loc := crashRe.FindStringIndex(out)
	if loc == nil {
		return tail(out, 30)
	}
	e := out[loc[0]:]
	lines := strings.Split(e, "\n")
	if len(lines) > 40 {
		lines = lines[:40]
	}
	return strings.Join(lines, "\n")
}
