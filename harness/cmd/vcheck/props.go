package main

// props is the per-property run configuration. Case counts bound the work
// (never wall clock); TimeoutS is only a safety net that yields exit 2.
var props = map[string]propCfg{
	"C14": {
		Test:     "TestC14",
		Quick:    tierCfg{Shards: 8, Checks: 4000, TimeoutS: 900},
		Thorough: tierCfg{Shards: 16, Checks: 200000, TimeoutS: 14400},
		Rule:     "each case = (valid nested document with duplicate/escaped/case-variant keys, wide objects of 15..40 members and white-space runs; a path of 0..4 keys/indexes drawn by walking the reference tree - existing members incl. later duplicates, missing keys, out-of-range indexes, steps into scalars; SearchOptions in 2^3; one of 9 entry points: Get, GetFromString, GetCopyFromString, GetWithOptions, NewSearcher, NewRaw+GetByPath, Get+chained Get/Index, LoadAll+GetByPath, NewRawConcurrentRead+chain). Oracle: harness/ref ordered tree (first occurrence of a duplicated key): exists <=> node returned; Raw token-equal to the source span; Interface/InterfaceUseNumber deep-equal encoding/json on the span; typed accessors (String, StrictString, Bool, Number, Float64, StrictInt64) equal the std-decoded value; Array/ArrayUseNode/Values/Map/Properties/ForEach enumerate children in source order; Get(key) on the located object returns the first occurrence; ast.Preorder(span) yields exactly the reference event stream (OnInt64 iff integer literal in int64 range). Evaluations count these sub-checks. Non-trivial: path length >= 1 and document depth >= 2. Distinct = distinct canonical case encodings.",
		Assume:   []string{"keys spelled with lone surrogate escapes are outside the domain (a Go string path cannot name them)", "Get on a path is only required to be right for well-formed documents (documented)"},
		EssentialClasses: []string{"found", "missing", "dup-key", "wide>16", "pathlen=3", "entry:LoadAll.GetByPath", "entry:ast.NewSearcher"},
	},
	"C02": {
		Test:     "TestC02",
		Quick:    tierCfg{Shards: 8, Checks: 25000, TimeoutS: 900},
		Thorough: tierCfg{Shards: 16, Checks: 2000000, TimeoutS: 14400},
		Rule:     "each case = one byte string at a drawn alignment, from: grammar-generated valid documents (block-geometry strings, wide objects, all number forms), one or two structural mutations of those (delete/duplicate/replace a structural byte, truncate, append junk, near-literals, malformed numbers, byte insert/swap/delete, control byte or invalid UTF-8 inside a string), a string-geometry sweep (body lengths 0..130 with an escape/quote/backslash at every offset, in 6 templates, optionally truncated), and raw bytes over the JSON alphabet. The string is offered to 37 consuming entry points (Valid/ValidString/encoder.Valid, Unmarshal and UnmarshalFromString under ConfigStd and ConfigDefault into interface{}, RawMessage, NoCopyRawMessage, a recording Unmarshaler, ast.Node, typed containers and skipping structs, Get/GetFromString/GetWithOptions, NewSearcher, NewRaw, NewRawConcurrentRead followed by Check+LoadAll+Raw+Interface, decoder.Skip). Oracle (sandwich): not ref.Structural => every entry point rejects; encoding/json.Valid (depth <= 512) => every type-agnostic entry point accepts (value-converting ones only if the numbers fit float64); captured raw text must itself be structural; decoder.Skip must delimit exactly the first value. Non-trivial: a non-valid mutated/raw input, or a valid input longer than 64 bytes. Distinct = distinct canonical case encodings.",
		Assume:   []string{"ref.Structural (iterative recogniser with lenient string bodies) defines 'structurally malformed'; encoding/json.Valid defines 'valid'", "Get with a non-empty path is exercised in C14"},
		EssentialClasses: []string{"doc-valid", "doc-malformed", "doc-structural-only", "src:geometry-truncated", "src:mutated:truncate", "src:raw"},
	},
	"C01": {
		Test:     "TestC01",
		Quick:    tierCfg{Shards: 8, Checks: 5000, TimeoutS: 900},
		Thorough: tierCfg{Shards: 16, Checks: 300000, TimeoutS: 14400},
		Rule:     "each case = (destination type spec, document, configuration in {ConfigStd, ConfigDefault} x {-, UseNumber, UseInt64}, optional pre-filled destination). Types are composed with reflect from basic kinds and a ~50-type catalogue (Unmarshaler/TextUnmarshaler on value and pointer receivers, embedded structs and pointers, clashing names, ,string, recursive types, text map keys); most carry a unique field name, so they are new to the process (programs = types first compiled). Documents are type-directed (walk of the type emitting fitting values with perturbations: wrong kind, null, width boundaries, non-integers, duplicate/case-variant/escaped/Unicode-folded keys, ,string payload variants, base64 variants, text produced by the type's own marshaler), or unrelated valid documents, or one structural mutation of either. Oracle: encoding/json on an identically pre-filled destination: same accept/reject, deep-equal value (floats by bits); structurally malformed documents must be rejected; a structurally valid document that only encoding/json rejects is tolerated only if, with the flawed string literals replaced by a marker, encoding/json accepts and sonic's result equals that result (i.e. the flawed literals were skipped, not stored). Under ConfigDefault documents with raw control characters or invalid UTF-8 in literals are outside the statement and only checked for no panic. Non-trivial: document is valid JSON, longer than 2 bytes, destination is not interface{}. Distinct = distinct canonical case encodings.",
		Assume:   []string{"encoding/json go1.23.5 is the reference; UseInt64 oracle = UseNumber result with integer literals in int64 range converted to int64 and the rest to float64", "destination types encoding/json cannot decode (float/bool map keys) are outside the domain"},
		EssentialClasses: []string{"new-type", "doc-valid", "doc-malformed", "doc-structural-only", "valid-doc-type-error", "prefilled", "has-embedded", "has-string-opt", "has-map", "cfg:std", "cfg:default+UseInt64", "src:unrelated"},
	},
	"C11": {
		Test:     "TestC11",
		Quick:    tierCfg{Shards: 8, Checks: 4000, TimeoutS: 900},
		Thorough: tierCfg{Shards: 16, Checks: 200000, TimeoutS: 14400},
		Rule:     "each case = C01's (type, document, prefill) stream plus a decoder option set drawn from 2^7 combinations of UseNumber, UseInt64, DisallowUnknownFields, CopyString, ValidateString, CaseSensitive, UseUnicodeErrors; one quarter of the cases use interface{}, map[string]interface{} or []interface{} roots (fast-map shapes). The document is decoded by jitdec, optdec and optdec+fastmap (3 evaluations; switched in-process through verifhook.SetDecoder = the assignment SONIC_USE_OPTDEC/SONIC_USE_FASTMAP make at init). For json.Valid documents with valid UTF-8 all three must agree on error-or-not and on deep-equal values; structurally malformed documents must be rejected by all three. Non-trivial: document valid, longer than 2 bytes, and destination not interface{} or the document has an object. Distinct = distinct canonical case encodings.",
		Assume:   []string{"agreement is required on valid documents only; a JSON text is UTF-8 (RFC 8259), so documents with invalid UTF-8 in literals are only required not to crash", "hook equals the environment-variable selection (cross-process confirmation in the thorough tier)"},
		EssentialClasses: []string{"doc-valid", "doc-malformed", "fastmap-shape", "opt:UseNumber", "opt:CaseSensitive", "opt:DisallowUnknown", "valid-doc-both-error"},
	},
	"C03": {
		Test:     "TestC03",
		Quick:    tierCfg{Shards: 8, Checks: 4000, TimeoutS: 900},
		Thorough: tierCfg{Shards: 16, Checks: 150000, TimeoutS: 10800},
		Rule:     "each case = (type spec, value) drawn as data: the type is composed with reflect.StructOf/MapOf/SliceOf/ArrayOf/PtrTo from basic kinds and a catalogue of ~50 named types with (Text)Marshaler methods on value/pointer receivers, recursive, embedded, same-named types; struct tags drawn from none/name/omitempty/string/-/clashing names/unexported/embedded; most types carry a unique field name so they are new to the process (programs = distinct types first compiled). The value is marshaled as value, through a pointer and as slice element by encoding/json and sonic.ConfigStd (3 evaluations per case), or wrapped in an unencodable shape (chan, func, complex, unsupported key, pointer/map cycle). Non-trivial: the type has a struct or map and the output has >= 3 tokens. Distinct = distinct canonical case encodings.",
		Assume:   []string{"encoding/json of go1.23.5 is the reference (omitzero is not known to it and is not generated)", "map[bool]/map[float] keys are a sonic extension that encoding/json rejects: outside the property's domain, not generated", "string tokens compare by denoted value; for ,string fields two literals that are themselves quoted JSON strings compare by the string those denote"},
		EssentialClasses: []string{"new-type", "has-map", "has-embedded", "has-string-opt", "has-omitempty", "both-error", "cat:MPtr", "cat:TVal", "cat:Tree"},
	},
	"C04": {
		Test:     "TestC04",
		Quick:    tierCfg{Shards: 8, Checks: 3000, TimeoutS: 900},
		Thorough: tierCfg{Shards: 16, Checks: 150000, TimeoutS: 10800},
		Rule:     "each case = (round-trippable type spec, value, encoder option mask 0..511) or (unrepresentable value kind, embedding shape, mask). Round-trip cases: encoder.Encode(v, mask) must be json.Valid and structurally one value, and decoding it with encoding/json, sonic.ConfigStd and sonic.ConfigDefault into a fresh T must deep-equal norm(v) (floats by bits); also via pointer (5 evaluations). norm = identity except: omitted empty omitempty slices/maps come back nil, NoNullSliceOrMap turns nil slices/maps into empty ones, a pointer to something that encodes as null comes back nil. Unrepresentable cases (NaN/Inf, chan, func, complex, invalid json.Number, pointer/map/slice cycles, Marshaler returning error or 7 kinds of garbage, failing TextMarshaler as value and as key) must yield an error (or valid JSON when the mask makes them representable). Non-trivial: mask != 0, output has a number or string, type has a container; all unrepresentable cases. Distinct = distinct canonical case encodings.",
		Assume:   []string{"types whose encoding is lossy in encoding/json itself are outside the round-trip domain (json:\"-\", clashing names, pointer-receiver marshalers at non-addressable positions, string-kind TextMarshaler keys, nil RawMessage)", "NoQuoteTextMarshaler is cleared when the type holds a TextMarshaler whose text is not a JSON literal (documented caller error)"},
		EssentialClasses: []string{"new-type", "NoNullSliceOrMap", "NoQuoteTextMarshaler", "unrep:NaN", "unrep:pointer cycle", "unrep:invalid json.Number"},
	},
	"C12": {
		Test:     "TestC12",
		Quick:    tierCfg{Shards: 8, Checks: 1500, TimeoutS: 900},
		Thorough: tierCfg{Shards: 16, Checks: 60000, TimeoutS: 10800},
		Rule:     "each case = (type spec, value incl. NaN/Inf and invalid UTF-8, option mask 0..511), optionally wrapped in an unencodable or unrepresentable shape; the value is encoded as value, via pointer and inside []interface{} by the JIT back end and by the VM back end (switched in-process with verifhook.SetEncoderVM, which is encoder.ForceUseJit/ForceUseVM + cache reset): 3 evaluations per case; outputs must be byte-identical or both fail (without SortMapKeys: identical modulo object member order, since Go map iteration order differs between any two runs). Non-trivial: output contains a number or string and the type has a container. Distinct = distinct canonical case encodings.",
		Assume:   []string{"the hook selects the back ends exactly as SONIC_ENCODER_USE_VM does at init (a cross-process tier with the real variable runs in the thorough tier)"},
		EssentialClasses: []string{"has-map", "has-struct", "both-error", "unsupported", "unrepresentable"},
	},
	"C19": {
		Test:     "TestC19",
		Quick:    tierCfg{Shards: 8, Checks: 2500, TimeoutS: 900},
		Thorough: tierCfg{Shards: 16, Checks: 120000, TimeoutS: 7200},
		Rule:     "each case = one well-formed number literal (shortest repr of random float64/float32 bits, the same with up to 900 extra digits, exact decimal midpoints between adjacent doubles/float32s and their neighbours, integer width boundaries 2^k±2, subnormals, overflow/underflow, notation thresholds, special list) decoded by jitdec and optdec under ConfigStd/ConfigDefault/UseNumber/UseInt64 into ~45 destinations (all int/uint widths, float32/64, json.Number, interface{}, slices, arrays, map values, integer map keys, ,string fields, named kinds, a struct of all widths), by ast.Node accessors, and one float64/float32/int64/uint64 value set printed through ~25 value shapes; ~600 oracle evaluations per case (evaluations counts them). Non-trivial: literal has more than 15 significant digits, or an exponent, or lies where float32 double rounding matters. Distinct = distinct canonical case encodings.",
		Assume:   []string{"encoding/json (go1.23.5) and strconv are the reference", "optdec selected in-process through verifhook.SetDecoder (same assignment the SONIC_USE_OPTDEC init makes)"},
		EssentialClasses: []string{"digits>19", "subnormal", "negative-zero", "f64-overflow", "f32-double-rounding-candidate", "int-literal-out-of-int64"},
	},
	"C20": {
		Test:     "TestC20",
		Quick:    tierCfg{Shards: 8, Checks: 40000, TimeoutS: 600},
		Thorough: tierCfg{Shards: 16, Checks: 1500000, TimeoutS: 3600},
		Rule:     "each case = one raw byte string (random bytes / length sweep 0..200 with one special byte / structured pieces incl. invalid UTF-8, controls, HTML chars) + one string-literal body (all escape forms, lone surrogates, malformed escapes) at a drawn alignment 0..63, destination prefix and spare capacity; ~14 oracle evaluations per case (Quote, Marshal as value/key/,string, HTMLEscape, utf8.Validate/ValidateString/CorrectWith, unquote.String/IntoBytes, Unmarshal as value/key/interface). Non-trivial: data needs escaping and is >= 16 bytes, or the literal body has escapes/invalid UTF-8 and is >= 16 bytes, or the destination's spare capacity is smaller than the output. Distinct = distinct canonical case encodings (FNV-64).",
		Assume:   []string{"encoding/json, unicode/utf8 and the byte-wise reference unquoter in harness/ref are the definitions", "native routines exercised are the ones selected for this CPU (AVX2 here); the SSE variants are compared in C13"},
	},
}
