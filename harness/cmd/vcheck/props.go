package main

// props is the per-property run configuration. Case counts bound the work
// (never wall clock); TimeoutS is only a safety net that yields exit 2.
var props = map[string]propCfg{
	"C03": {
		Test:     "TestC03",
		Quick:    tierCfg{Shards: 8, Checks: 4000, TimeoutS: 900},
		Thorough: tierCfg{Shards: 16, Checks: 150000, TimeoutS: 10800},
		Rule:     "each case = (type spec, value) drawn as data: the type is composed with reflect.StructOf/MapOf/SliceOf/ArrayOf/PtrTo from basic kinds and a catalogue of ~50 named types with (Text)Marshaler methods on value/pointer receivers, recursive, embedded, same-named types; struct tags drawn from none/name/omitempty/string/-/clashing names/unexported/embedded; most types carry a unique field name so they are new to the process (programs = distinct types first compiled). The value is marshaled as value, through a pointer and as slice element by encoding/json and sonic.ConfigStd (3 evaluations per case), or wrapped in an unencodable shape (chan, func, complex, unsupported key, pointer/map cycle). Non-trivial: the type has a struct or map and the output has >= 3 tokens. Distinct = distinct canonical case encodings.",
		Assume:   []string{"encoding/json of go1.23.5 is the reference (omitzero is not known to it and is not generated)", "map[bool]/map[float] keys are a sonic extension that encoding/json rejects: outside the property's domain, not generated", "string tokens compare by denoted value; for ,string fields two literals that are themselves quoted JSON strings compare by the string those denote"},
		EssentialClasses: []string{"new-type", "has-map", "has-embedded", "has-string-opt", "has-omitempty", "both-error", "cat:MPtr", "cat:TVal", "cat:Tree"},
	},
	"C04": {
		Test:     "TestC04",
		Quick:    tierCfg{Shards: 8, Checks: 3000, TimeoutS: 900},
		Thorough: tierCfg{Shards: 16, Checks: 150000, TimeoutS: 10800},
		Rule:     "each case = (round-trippable type spec, value, encoder option mask 0..511) or (unrepresentable value kind, embedding shape, mask). Round-trip cases: encoder.Encode(v, mask) must be json.Valid and structurally one value, and decoding it with encoding/json, sonic.ConfigStd and sonic.ConfigDefault into a fresh T must deep-equal norm(v) (floats by bits); also via pointer (5 evaluations). norm = identity except: omitted empty omitempty slices/maps come back nil, NoNullSliceOrMap turns nil slices/maps into empty ones, a pointer to something that encodes as null comes back nil. Unrepresentable cases (NaN/Inf, chan, func, complex, invalid json.Number, pointer/map/slice cycles, Marshaler returning error or 7 kinds of garbage, failing TextMarshaler as value and as key) must yield an error (or valid JSON when the mask makes them representable). Non-trivial: mask != 0, output has a number or string, type has a container; all unrepresentable cases. Distinct = distinct canonical case encodings.",
		Assume:   []string{"types whose encoding is lossy in encoding/json itself are outside the round-trip domain (json:\"-\", clashing names, pointer-receiver marshalers at non-addressable positions, string-kind TextMarshaler keys, nil RawMessage)", "NoQuoteTextMarshaler is cleared when the type holds a TextMarshaler whose text is not a JSON literal (documented caller error)"},
		EssentialClasses: []string{"new-type", "NoNullSliceOrMap", "NoQuoteTextMarshaler", "unrep:NaN", "unrep:pointer cycle", "unrep:invalid json.Number"},
	},
	"C12": {
		Test:     "TestC12",
		Quick:    tierCfg{Shards: 8, Checks: 1500, TimeoutS: 900},
		Thorough: tierCfg{Shards: 16, Checks: 60000, TimeoutS: 10800},
		Rule:     "each case = (type spec, value incl. NaN/Inf and invalid UTF-8, option mask 0..511), optionally wrapped in an unencodable or unrepresentable shape; the value is encoded as value, via pointer and inside []interface{} by the JIT back end and by the VM back end (switched in-process with verifhook.SetEncoderVM, which is encoder.ForceUseJit/ForceUseVM + cache reset): 3 evaluations per case; outputs must be byte-identical or both fail (without SortMapKeys: identical modulo object member order, since Go map iteration order differs between any two runs). Non-trivial: output contains a number or string and the type has a container. Distinct = distinct canonical case encodings.",
		Assume:   []string{"the hook selects the back ends exactly as SONIC_ENCODER_USE_VM does at init (a cross-process tier with the real variable runs in the thorough tier)"},
		EssentialClasses: []string{"has-map", "has-struct", "both-error", "unsupported", "unrepresentable"},
	},
	"C19": {
		Test:     "TestC19",
		Quick:    tierCfg{Shards: 8, Checks: 2500, TimeoutS: 900},
		Thorough: tierCfg{Shards: 16, Checks: 120000, TimeoutS: 7200},
		Rule:     "each case = one well-formed number literal (shortest repr of random float64/float32 bits, the same with up to 900 extra digits, exact decimal midpoints between adjacent doubles/float32s and their neighbours, integer width boundaries 2^k±2, subnormals, overflow/underflow, notation thresholds, special list) decoded by jitdec and optdec under ConfigStd/ConfigDefault/UseNumber/UseInt64 into ~45 destinations (all int/uint widths, float32/64, json.Number, interface{}, slices, arrays, map values, integer map keys, ,string fields, named kinds, a struct of all widths), by ast.Node accessors, and one float64/float32/int64/uint64 value set printed through ~25 value shapes; ~600 oracle evaluations per case (evaluations counts them). Non-trivial: literal has more than 15 significant digits, or an exponent, or lies where float32 double rounding matters. Distinct = distinct canonical case encodings.",
		Assume:   []string{"encoding/json (go1.23.5) and strconv are the reference", "optdec selected in-process through verifhook.SetDecoder (same assignment the SONIC_USE_OPTDEC init makes)"},
		EssentialClasses: []string{"digits>19", "subnormal", "negative-zero", "f64-overflow", "f32-double-rounding-candidate", "int-literal-out-of-int64"},
	},
	"C20": {
		Test:     "TestC20",
		Quick:    tierCfg{Shards: 8, Checks: 40000, TimeoutS: 600},
		Thorough: tierCfg{Shards: 16, Checks: 1500000, TimeoutS: 3600},
		Rule:     "each case = one raw byte string (random bytes / length sweep 0..200 with one special byte / structured pieces incl. invalid UTF-8, controls, HTML chars) + one string-literal body (all escape forms, lone surrogates, malformed escapes) at a drawn alignment 0..63, destination prefix and spare capacity; ~14 oracle evaluations per case (Quote, Marshal as value/key/,string, HTMLEscape, utf8.Validate/ValidateString/CorrectWith, unquote.String/IntoBytes, Unmarshal as value/key/interface). Non-trivial: data needs escaping and is >= 16 bytes, or the literal body has escapes/invalid UTF-8 and is >= 16 bytes, or the destination's spare capacity is smaller than the output. Distinct = distinct canonical case encodings (FNV-64).",
		Assume:   []string{"encoding/json, unicode/utf8 and the byte-wise reference unquoter in harness/ref are the definitions", "native routines exercised are the ones selected for this CPU (AVX2 here); the SSE variants are compared in C13"},
	},
}
