package main

// props is the per-property run configuration. Case counts bound the work
// (never wall clock); TimeoutS is only a safety net that yields exit 2.
var props = map[string]propCfg{
	"C20": {
		Test:     "TestC20",
		Quick:    tierCfg{Shards: 8, Checks: 40000, TimeoutS: 600},
		Thorough: tierCfg{Shards: 16, Checks: 1500000, TimeoutS: 3600},
		Rule:     "each case = one raw byte string (random bytes / length sweep 0..200 with one special byte / structured pieces incl. invalid UTF-8, controls, HTML chars) + one string-literal body (all escape forms, lone surrogates, malformed escapes) at a drawn alignment 0..63, destination prefix and spare capacity; ~14 oracle evaluations per case (Quote, Marshal as value/key/,string, HTMLEscape, utf8.Validate/ValidateString/CorrectWith, unquote.String/IntoBytes, Unmarshal as value/key/interface). Non-trivial: data needs escaping and is >= 16 bytes, or the literal body has escapes/invalid UTF-8 and is >= 16 bytes, or the destination's spare capacity is smaller than the output. Distinct = distinct canonical case encodings (FNV-64).",
		Assume:   []string{"encoding/json, unicode/utf8 and the byte-wise reference unquoter in harness/ref are the definitions", "native routines exercised are the ones selected for this CPU (AVX2 here); the SSE variants are compared in C13"},
	},
}
