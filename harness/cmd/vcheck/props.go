package main

// props is the per-property run configuration. Case counts bound the work
// (never wall clock); TimeoutS is only a safety net that yields exit 2.
var props = map[string]propCfg{
	"C19": {
		Test:     "TestC19",
		Quick:    tierCfg{Shards: 8, Checks: 2500, TimeoutS: 900},
		Thorough: tierCfg{Shards: 16, Checks: 120000, TimeoutS: 7200},
		Rule:     "each case = one well-formed number literal (shortest repr of random float64/float32 bits, the same with up to 900 extra digits, exact decimal midpoints between adjacent doubles/float32s and their neighbours, integer width boundaries 2^k±2, subnormals, overflow/underflow, notation thresholds, special list) decoded by jitdec and optdec under ConfigStd/ConfigDefault/UseNumber/UseInt64 into ~45 destinations (all int/uint widths, float32/64, json.Number, interface{}, slices, arrays, map values, integer map keys, ,string fields, named kinds, a struct of all widths), by ast.Node accessors, and one float64/float32/int64/uint64 value set printed through ~25 value shapes; ~600 oracle evaluations per case (evaluations counts them). Non-trivial: literal has more than 15 significant digits, or an exponent, or lies where float32 double rounding matters. Distinct = distinct canonical case encodings.",
		Assume:   []string{"encoding/json (go1.23.5) and strconv are the reference", "optdec selected in-process through verifhook.SetDecoder (same assignment the SONIC_USE_OPTDEC init makes)"},
		EssentialClasses: []string{"digits>19", "subnormal", "negative-zero", "f64-overflow", "f32-double-rounding-candidate", "int-literal-out-of-int64"},
	},
	"C20": {
		Test:     "TestC20",
		Quick:    tierCfg{Shards: 8, Checks: 40000, TimeoutS: 600},
		Thorough: tierCfg{Shards: 16, Checks: 1500000, TimeoutS: 3600},
		Rule:     "each case = one raw byte string (random bytes / length sweep 0..200 with one special byte / structured pieces incl. invalid UTF-8, controls, HTML chars) + one string-literal body (all escape forms, lone surrogates, malformed escapes) at a drawn alignment 0..63, destination prefix and spare capacity; ~14 oracle evaluations per case (Quote, Marshal as value/key/,string, HTMLEscape, utf8.Validate/ValidateString/CorrectWith, unquote.String/IntoBytes, Unmarshal as value/key/interface). Non-trivial: data needs escaping and is >= 16 bytes, or the literal body has escapes/invalid UTF-8 and is >= 16 bytes, or the destination's spare capacity is smaller than the output. Distinct = distinct canonical case encodings (FNV-64).",
		Assume:   []string{"encoding/json, unicode/utf8 and the byte-wise reference unquoter in harness/ref are the definitions", "native routines exercised are the ones selected for this CPU (AVX2 here); the SSE variants are compared in C13"},
	},
}
