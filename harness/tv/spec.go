// Package tv turns Go types and values into plain data and back, so that
// generated (type, value) pairs can be written to case files and replayed.
package tv

import (
	"encoding/base64"
	"encoding/json"
	"fmt"
	"math"
	"reflect"
	"strconv"
	"sync"
	"unicode/utf8"

	"verif/harness/cat"
)

// TypeSpec describes a Go type as data.
type TypeSpec struct {
	K      string      `json:"k"`              // basic kind name, "iface", "ptr", "slice", "array", "map", "struct", "cat"
	Name   string      `json:"name,omitempty"` // catalogue entry for K=="cat"
	Elem   *TypeSpec   `json:"elem,omitempty"`
	Key    *TypeSpec   `json:"key,omitempty"`
	N      int         `json:"n,omitempty"`
	Fields []FieldSpec `json:"fields,omitempty"`
}

// FieldSpec describes one struct field.
type FieldSpec struct {
	Name string   `json:"name"`
	Tag  string   `json:"tag,omitempty"`
	Emb  bool     `json:"emb,omitempty"`
	T    TypeSpec `json:"t"`
}

var basic = map[string]reflect.Type{
	"bool": reflect.TypeOf(false), "int": reflect.TypeOf(int(0)), "int8": reflect.TypeOf(int8(0)), "int16": reflect.TypeOf(int16(0)),
	"int32": reflect.TypeOf(int32(0)), "int64": reflect.TypeOf(int64(0)), "uint": reflect.TypeOf(uint(0)), "uint8": reflect.TypeOf(uint8(0)),
	"uint16": reflect.TypeOf(uint16(0)), "uint32": reflect.TypeOf(uint32(0)), "uint64": reflect.TypeOf(uint64(0)), "uintptr": reflect.TypeOf(uintptr(0)),
	"float32": reflect.TypeOf(float32(0)), "float64": reflect.TypeOf(float64(0)), "string": reflect.TypeOf(""),
	"iface":     reflect.TypeOf((*interface{})(nil)).Elem(),
	"complex64": reflect.TypeOf(complex64(0)), "complex128": reflect.TypeOf(complex128(0)),
	"chan": reflect.TypeOf((chan int)(nil)), "func": reflect.TypeOf((func())(nil)), "unsafeptr": reflect.TypeOf((*struct{})(nil)),
}

// BasicKinds lists the names usable as TypeSpec.K for leaf types.
var BasicKinds = []string{"bool", "int", "int8", "int16", "int32", "int64", "uint", "uint8", "uint16", "uint32", "uint64", "uintptr", "float32", "float64", "string", "iface"}

var (
	mu      sync.Mutex
	specOf  = map[reflect.Type]TypeSpec{}
	builtBy = map[string]reflect.Type{}
)

func init() {
	for k, t := range basic {
		if k != "unsafeptr" {
			specOf[t] = TypeSpec{K: k}
		}
	}
	for _, e := range cat.Entries {
		specOf[e.Type] = TypeSpec{K: "cat", Name: e.Name}
	}
}

// PkgPath used for unexported generated fields.
const genPkgPath = "verif/harness/tv"

// Build turns a spec into a reflect.Type. It fails (rather than panics) on
// specs reflect cannot realise.
func Build(s TypeSpec) (t reflect.Type, err error) {
	defer func() {
		if p := recover(); p != nil {
			err = fmt.Errorf("tv.Build: %v", p)
		}
	}()
	key, _ := json.Marshal(s)
	mu.Lock()
	if t, ok := builtBy[string(key)]; ok {
		mu.Unlock()
		return t, nil
	}
	mu.Unlock()
	t = build(s)
	mu.Lock()
	builtBy[string(key)] = t
	if _, ok := specOf[t]; !ok {
		specOf[t] = s
	}
	mu.Unlock()
	return t, nil
}

func build(s TypeSpec) reflect.Type {
	if t, ok := basic[s.K]; ok {
		return t
	}
	switch s.K {
	case "cat":
		e := cat.Lookup(s.Name)
		if e == nil {
			panic("unknown catalogue type " + s.Name)
		}
		return e.Type
	case "ptr":
		return reflect.PtrTo(mustBuild(*s.Elem))
	case "slice":
		return reflect.SliceOf(mustBuild(*s.Elem))
	case "array":
		return reflect.ArrayOf(s.N, mustBuild(*s.Elem))
	case "map":
		return reflect.MapOf(mustBuild(*s.Key), mustBuild(*s.Elem))
	case "struct":
		fs := make([]reflect.StructField, len(s.Fields))
		for i, f := range s.Fields {
			fs[i] = reflect.StructField{Name: f.Name, Type: mustBuild(f.T), Tag: reflect.StructTag(f.Tag), Anonymous: f.Emb}
			if f.Name != "" && (f.Name[0] < 'A' || f.Name[0] > 'Z') {
				fs[i].PkgPath = genPkgPath
			}
		}
		return reflect.StructOf(fs)
	}
	panic("unknown kind " + s.K)
}

func mustBuild(s TypeSpec) reflect.Type {
	t, err := Build(s)
	if err != nil {
		panic(err)
	}
	return t
}

// SpecOf returns the spec of a type previously built (or basic / catalogue).
func SpecOf(t reflect.Type) (TypeSpec, bool) {
	mu.Lock()
	s, ok := specOf[t]
	mu.Unlock()
	if ok {
		return s, true
	}
	// derive structurally for unnamed composites
	if t.Name() != "" {
		return TypeSpec{}, false
	}
	switch t.Kind() {
	case reflect.Ptr:
		e, ok := SpecOf(t.Elem())
		return TypeSpec{K: "ptr", Elem: &e}, ok
	case reflect.Slice:
		e, ok := SpecOf(t.Elem())
		return TypeSpec{K: "slice", Elem: &e}, ok
	case reflect.Array:
		e, ok := SpecOf(t.Elem())
		return TypeSpec{K: "array", N: t.Len(), Elem: &e}, ok
	case reflect.Map:
		k, ok1 := SpecOf(t.Key())
		e, ok2 := SpecOf(t.Elem())
		return TypeSpec{K: "map", Key: &k, Elem: &e}, ok1 && ok2
	case reflect.Struct:
		s := TypeSpec{K: "struct"}
		for i := 0; i < t.NumField(); i++ {
			f := t.Field(i)
			fs, ok := SpecOf(f.Type)
			if !ok {
				return TypeSpec{}, false
			}
			s.Fields = append(s.Fields, FieldSpec{Name: f.Name, Tag: string(f.Tag), Emb: f.Anonymous, T: fs})
		}
		return s, true
	}
	return TypeSpec{}, false
}

// ---- values as data

type b64 struct {
	B string `json:"b64"`
}
type ifaceV struct {
	T TypeSpec    `json:"t"`
	V interface{} `json:"v"`
}

// Dump turns a value into a JSON-encodable tree (type-directed; Load is the inverse).
func Dump(v reflect.Value) interface{} {
	switch v.Kind() {
	case reflect.Bool:
		return v.Bool()
	case reflect.Int, reflect.Int8, reflect.Int16, reflect.Int32, reflect.Int64:
		return strconv.FormatInt(v.Int(), 10)
	case reflect.Uint, reflect.Uint8, reflect.Uint16, reflect.Uint32, reflect.Uint64, reflect.Uintptr:
		return strconv.FormatUint(v.Uint(), 10)
	case reflect.Float32:
		return fmt.Sprintf("f32:%#x:%v", math.Float32bits(float32(v.Float())), v.Float())
	case reflect.Float64:
		return fmt.Sprintf("f64:%#x:%v", math.Float64bits(v.Float()), v.Float())
	case reflect.String:
		s := v.String()
		if utf8.ValidString(s) {
			return s
		}
		return b64{base64.StdEncoding.EncodeToString([]byte(s))}
	case reflect.Ptr:
		if v.IsNil() {
			return nil
		}
		return []interface{}{Dump(v.Elem())}
	case reflect.Interface:
		if v.IsNil() {
			return nil
		}
		e := v.Elem()
		s, ok := SpecOf(e.Type())
		if !ok {
			panic(fmt.Sprintf("tv.Dump: no spec for dynamic type %s", e.Type()))
		}
		return ifaceV{s, Dump(e)}
	case reflect.Slice:
		if v.IsNil() {
			return nil
		}
		if v.Type().Elem().Kind() == reflect.Uint8 {
			bs := make([]byte, v.Len())
			for i := range bs {
				bs[i] = byte(v.Index(i).Uint())
			}
			return b64{base64.StdEncoding.EncodeToString(bs)}
		}
		fallthrough
	case reflect.Array:
		out := make([]interface{}, v.Len())
		for i := range out {
			out[i] = Dump(v.Index(i))
		}
		return out
	case reflect.Map:
		if v.IsNil() {
			return nil
		}
		out := make([]interface{}, 0, v.Len())
		for _, k := range SortedKeys(v) {
			out = append(out, []interface{}{Dump(k), Dump(v.MapIndex(k))})
		}
		return out
	case reflect.Struct:
		out := make([]interface{}, v.NumField())
		for i := range out {
			if v.Type().Field(i).PkgPath != "" && !v.Type().Field(i).Anonymous {
				out[i] = nil
				continue
			}
			out[i] = Dump(v.Field(i))
		}
		return out
	case reflect.Chan, reflect.Func, reflect.UnsafePointer:
		if v.IsNil() {
			return nil
		}
		return "nonnil"
	case reflect.Complex64, reflect.Complex128:
		return fmt.Sprint(v.Complex())
	}
	panic("tv.Dump: kind " + v.Kind().String())
}

// SortedKeys orders map keys deterministically (by their dumped JSON form).
func SortedKeys(m reflect.Value) []reflect.Value {
	ks := m.MapKeys()
	strs := make([]string, len(ks))
	for i, k := range ks {
		b, _ := json.Marshal(Dump(k))
		strs[i] = string(b)
	}
	// insertion sort on small slices, keeps keys and strs aligned
	for i := 1; i < len(ks); i++ {
		for j := i; j > 0 && strs[j] < strs[j-1]; j-- {
			strs[j], strs[j-1] = strs[j-1], strs[j]
			ks[j], ks[j-1] = ks[j-1], ks[j]
		}
	}
	return ks
}

// Load rebuilds a value of type t from a dumped tree (after a JSON round trip).
func Load(t reflect.Type, d interface{}) (v reflect.Value, err error) {
	defer func() {
		if p := recover(); p != nil {
			err = fmt.Errorf("tv.Load(%s): %v", t, p)
		}
	}()
	v = reflect.New(t).Elem()
	load(v, d)
	return v, nil
}

func getB64(d interface{}) ([]byte, bool) {
	m, ok := d.(map[string]interface{})
	if !ok {
		return nil, false
	}
	s, ok := m["b64"].(string)
	if !ok {
		return nil, false
	}
	b, err := base64.StdEncoding.DecodeString(s)
	if err != nil {
		panic(err)
	}
	return b, true
}

func load(v reflect.Value, d interface{}) {
	if !v.CanSet() && v.Kind() != reflect.Struct {
		return
	}
	switch v.Kind() {
	case reflect.Bool:
		v.SetBool(d.(bool))
	case reflect.Int, reflect.Int8, reflect.Int16, reflect.Int32, reflect.Int64:
		n, err := strconv.ParseInt(d.(string), 10, 64)
		if err != nil {
			panic(err)
		}
		v.SetInt(n)
	case reflect.Uint, reflect.Uint8, reflect.Uint16, reflect.Uint32, reflect.Uint64, reflect.Uintptr:
		n, err := strconv.ParseUint(d.(string), 10, 64)
		if err != nil {
			panic(err)
		}
		v.SetUint(n)
	case reflect.Float32, reflect.Float64:
		var kind string
		var bits uint64
		s := d.(string)
		// "f64:0x...:text"
		var i, j int
		for i = 0; i < len(s) && s[i] != ':'; i++ {
		}
		kind = s[:i]
		for j = i + 1; j < len(s) && s[j] != ':'; j++ {
		}
		bits, err := strconv.ParseUint(s[i+1:j], 0, 64)
		if err != nil {
			panic(err)
		}
		if kind == "f32" {
			v.SetFloat(float64(math.Float32frombits(uint32(bits))))
		} else {
			v.SetFloat(math.Float64frombits(bits))
		}
	case reflect.String:
		if s, ok := d.(string); ok {
			v.SetString(s)
		} else if b, ok := getB64(d); ok {
			v.SetString(string(b))
		} else {
			panic("bad string dump")
		}
	case reflect.Ptr:
		if d == nil {
			return
		}
		p := reflect.New(v.Type().Elem())
		load(p.Elem(), d.([]interface{})[0])
		v.Set(p)
	case reflect.Interface:
		if d == nil {
			return
		}
		m := d.(map[string]interface{})
		tb, _ := json.Marshal(m["t"])
		var ts TypeSpec
		if err := json.Unmarshal(tb, &ts); err != nil {
			panic(err)
		}
		dt := mustBuild(ts)
		e := reflect.New(dt).Elem()
		load(e, m["v"])
		v.Set(e)
	case reflect.Slice:
		if d == nil {
			return
		}
		if v.Type().Elem().Kind() == reflect.Uint8 {
			b, ok := getB64(d)
			if !ok {
				panic("bad bytes dump")
			}
			s := reflect.MakeSlice(v.Type(), len(b), len(b))
			for i, x := range b {
				s.Index(i).SetUint(uint64(x))
			}
			v.Set(s)
			return
		}
		xs := d.([]interface{})
		s := reflect.MakeSlice(v.Type(), len(xs), len(xs))
		for i, x := range xs {
			load(s.Index(i), x)
		}
		v.Set(s)
	case reflect.Array:
		xs := d.([]interface{})
		for i, x := range xs {
			load(v.Index(i), x)
		}
	case reflect.Map:
		if d == nil {
			return
		}
		m := reflect.MakeMap(v.Type())
		for _, kv := range d.([]interface{}) {
			p := kv.([]interface{})
			k := reflect.New(v.Type().Key()).Elem()
			load(k, p[0])
			e := reflect.New(v.Type().Elem()).Elem()
			load(e, p[1])
			m.SetMapIndex(k, e)
		}
		v.Set(m)
	case reflect.Struct:
		xs := d.([]interface{})
		for i, x := range xs {
			if x == nil && v.Type().Field(i).PkgPath != "" && !v.Type().Field(i).Anonymous {
				continue
			}
			load(v.Field(i), x)
		}
	case reflect.Chan:
		if d != nil {
			v.Set(reflect.MakeChan(v.Type(), 0))
		}
	case reflect.Func:
		if d != nil {
			v.Set(reflect.MakeFunc(v.Type(), func([]reflect.Value) []reflect.Value { return nil }))
		}
	case reflect.Complex64, reflect.Complex128:
		v.SetComplex(complex(1, 2))
	default:
		panic("tv.load: kind " + v.Kind().String())
	}
}
