package zz
import ("testing";"fmt";"github.com/bytedance/sonic")
func TestP(t *testing.T){
  api:=sonic.Config{CopyString:true,UseNumber:true}.Froze()
  buf:=[]byte(`{"a":12345,"b":[1.5,"s"]}`)
  var v interface{}
  err:=api.Unmarshal(buf,&v)
  for i:=range buf{buf[i]='#'}
  fmt.Println(v,err)
  var w struct{A interface{} `json:"a"`}
  buf=[]byte(`{"a":12345,"b":[1.5,"s"]}`)
  err=api.Unmarshal(buf,&w)
  for i:=range buf{buf[i]='#'}
  fmt.Println(w,err)
}
