package zz
import ("testing";"fmt";"encoding/json";"github.com/bytedance/sonic")
type T struct{ N json.Number `json:"n"` }
func TestP(t *testing.T){
  for _, cont := range []string{`123"}`, `1e5" }`, `x"}`, `"}`, `12`} {
    full := []byte(`{"N":"` + cont)
    in := full[:6]
    var v T
    err := sonic.UnmarshalString(string(in), &v)
    fmt.Printf("cont=%q -> %+v err=%v\n", cont, v, err)
  }
}
