package zz
import ("testing";"fmt";"encoding/json";"github.com/bytedance/sonic";"verif/harness/cat")
type T struct { Axxx cat.NStr `json:",string"` }
type T2 struct { Axxx string `json:",string"` }
func TestP(t *testing.T){
  doc := `{"axxx":"\"\\'\""}`
  var a, b T
  fmt.Println("std :", json.Unmarshal([]byte(doc), &a), fmt.Sprintf("%q", a.Axxx))
  fmt.Println("sonic:", sonic.ConfigStd.Unmarshal([]byte(doc), &b), fmt.Sprintf("%q", b.Axxx))
  var c, d T2
  fmt.Println("std :", json.Unmarshal([]byte(doc), &c), fmt.Sprintf("%q", c.Axxx))
  fmt.Println("sonic:", sonic.ConfigStd.Unmarshal([]byte(doc), &d), fmt.Sprintf("%q", d.Axxx))
}
