package gen

import (
	"encoding/json"
	"fmt"
	"math"
	"reflect"
	"strconv"
	"time"

	"pgregory.net/rapid"
	"verif/harness/cat"
	"verif/harness/tv"
)

// Flavour restricts the generated types to what an oracle needs.
type Flavour int

const (
	FlavDecode    Flavour = iota // anything encoding/json can decode into
	FlavEncode                   // anything encoding/json can encode
	FlavRoundTrip                // encode→decode is the identity (no lossy tags, no lossy methods)
)

// TypeOpt controls the type generator.
type TypeOpt struct {
	Flav      Flavour
	MaxDepth  int // default 3
	MaxFields int // default 6
	Fresh     bool
	NoCat     bool
}

var leafKinds = []string{"bool", "int", "int8", "int16", "int32", "int64", "uint", "uint8", "uint16", "uint32", "uint64", "uintptr", "float32", "float64", "string", "string", "iface", "iface", "int", "float64"}

var mapKeyKinds = []string{"string", "string", "string", "int", "int8", "int16", "int32", "int64", "uint", "uint8", "uint16", "uint32", "uint64", "uintptr"}

// catalogue entries by flavour
var (
	catDecode, catEncode, catRound, catKeysDecode, catKeysEncode, catKeysRound []string
)

func init() {
	lossy := map[string]bool{"URec": true, "UFail": true, "Outer1": true, "Outer2": true, "Outer3": true, "Outer4": true, "MPtr": true, "TPtr": true}
	for _, e := range cat.Entries {
		if e.Misbehav {
			continue
		}
		catDecode = append(catDecode, e.Name)
		if e.Name != "UFail" {
			catEncode = append(catEncode, e.Name)
		}
		if !lossy[e.Name] {
			catRound = append(catRound, e.Name)
		}
		if e.MapKey {
			catKeysDecode = append(catKeysDecode, e.Name)
			catKeysEncode = append(catKeysEncode, e.Name)
			if e.Name != "TKey" && e.Name != "MBoth" {
				catKeysRound = append(catKeysRound, e.Name)
			}
		}
	}
}

func catFor(f Flavour) []string {
	switch f {
	case FlavEncode:
		return catEncode
	case FlavRoundTrip:
		return catRound
	}
	return catDecode
}

func catKeysFor(f Flavour) []string {
	switch f {
	case FlavEncode:
		return catKeysEncode
	case FlavRoundTrip:
		return catKeysRound
	}
	return catKeysDecode
}

// JSON names used in tags: drawn from the same pool as document keys.
var tagNames = []string{"a", "A", "b", "ab", "aB", "k", "s", "1", "é", "x y", "f0", "f1", "m0", "key_with_a_long_name_over_sixteen_bytes", "null", "-", "omitempty", "string", "a.b", "a-b", "Ab"}

var fieldBaseNames = []string{"A", "B", "Ab", "AB", "K", "S", "F0", "F1", "F2", "F3", "M0", "X", "Y", "Z", "Key", "ID", "Null", "F10", "É", "A_b", "Abc"}

func ptrTo(s tv.TypeSpec) *tv.TypeSpec { return &s }

// Type draws a type spec.
func Type(t *rapid.T, o TypeOpt) tv.TypeSpec {
	d := o.MaxDepth
	if d == 0 {
		d = 3
	}
	return typeAt(t, o, d, true)
}

func typeAt(t *rapid.T, o TypeOpt, depth int, root bool) tv.TypeSpec {
	maxKind := 13
	if depth <= 0 {
		maxKind = 5
	}
	lo := 0
	if root {
		lo = 4 // roots are mostly composite
	}
	switch k := rapid.IntRange(lo, maxKind).Draw(t, "tkind"); {
	case k <= 3:
		return tv.TypeSpec{K: leafKinds[rapid.IntRange(0, len(leafKinds)-1).Draw(t, "leaf")]}
	case k <= 5:
		if o.NoCat {
			return tv.TypeSpec{K: "string"}
		}
		cs := catFor(o.Flav)
		return tv.TypeSpec{K: "cat", Name: cs[rapid.IntRange(0, len(cs)-1).Draw(t, "cat")]}
	case k == 6:
		return tv.TypeSpec{K: "ptr", Elem: ptrTo(typeAt(t, o, depth-1, false))}
	case k == 7:
		return tv.TypeSpec{K: "slice", Elem: ptrTo(typeAt(t, o, depth-1, false))}
	case k == 8:
		return tv.TypeSpec{K: "array", N: rapid.IntRange(0, 3).Draw(t, "alen"), Elem: ptrTo(typeAt(t, o, depth-1, false))}
	case k == 9:
		var key tv.TypeSpec
		ck := catKeysFor(o.Flav)
		if !o.NoCat && rapid.IntRange(0, 3).Draw(t, "catkey") == 0 {
			key = tv.TypeSpec{K: "cat", Name: ck[rapid.IntRange(0, len(ck)-1).Draw(t, "ckey")]}
		} else {
			key = tv.TypeSpec{K: mapKeyKinds[rapid.IntRange(0, len(mapKeyKinds)-1).Draw(t, "mkey")]}
		}
		return tv.TypeSpec{K: "map", Key: &key, Elem: ptrTo(typeAt(t, o, depth-1, false))}
	default:
		return structType(t, o, depth)
	}
}

func structType(t *rapid.T, o TypeOpt, depth int) tv.TypeSpec {
	mf := o.MaxFields
	if mf == 0 {
		mf = 6
	}
	n := rapid.IntRange(0, mf).Draw(t, "nfields")
	s := tv.TypeSpec{K: "struct"}
	used := map[string]bool{}
	usedJSON := map[string]bool{}
	uniq := ""
	if o.Fresh {
		uniq = "_" + strconv.Itoa(rapid.IntRange(0, 1<<30).Draw(t, "uniq"))
	}
	for i := 0; i < n; i++ {
		var f tv.FieldSpec
		base := fieldBaseNames[rapid.IntRange(0, len(fieldBaseNames)-1).Draw(t, "fname")]
		name := base
		if i == 0 {
			name += uniq
		}
		for used[name] {
			name += "x"
		}
		used[name] = true
		f.Name = name
		f.T = typeAt(t, o, depth-1, false)
		// embedded struct (only method-less struct types may be embedded through reflect.StructOf)
		if rapid.IntRange(0, 9).Draw(t, "embed") == 0 && o.Flav != FlavRoundTrip {
			emb := []string{"EmbA", "EmbB", "EmbD"}[rapid.IntRange(0, 2).Draw(t, "embt")]
			if !used[emb] {
				used[emb] = true
				f.Name = emb
				f.Emb = true
				f.T = tv.TypeSpec{K: "cat", Name: emb}
				if rapid.Bool().Draw(t, "embptr") {
					f.T = tv.TypeSpec{K: "ptr", Elem: ptrTo(f.T)}
				}
			}
		}
		f.Tag = fieldTag(t, o, f.T)
		if rapid.IntRange(0, 19).Draw(t, "unexported") == 0 && !f.Emb && o.Flav != FlavRoundTrip {
			f.Name = "u" + f.Name
		}
		if o.Flav == FlavRoundTrip {
			// JSON names must be unique among siblings, else encoding/json itself drops fields
			jn := jsonName(f)
			if usedJSON[jn] {
				f.Tag = ""
				jn = f.Name
				for usedJSON[jn] || (jn != f.Name && used[jn]) {
					jn += "q"
				}
				if jn != f.Name {
					used[jn] = true
					f.Name = jn
				}
			}
			usedJSON[jn] = true
		}
		s.Fields = append(s.Fields, f)
	}
	return s
}

// jsonName is the object key encoding/json uses for a field.
func jsonName(f tv.FieldSpec) string {
	tag := reflect.StructTag(f.Tag).Get("json")
	for i := 0; i < len(tag); i++ {
		if tag[i] == ',' {
			tag = tag[:i]
			break
		}
	}
	if tag != "" {
		return tag
	}
	return f.Name
}

func fieldTag(t *rapid.T, o TypeOpt, ft tv.TypeSpec) string {
	k := rapid.IntRange(0, 11).Draw(t, "tagkind")
	if o.Flav == FlavRoundTrip && (k == 8 || k == 9 || k == 11) {
		// encoding/json itself cannot decode what it writes for ,string on a type with text/JSON methods
		inner := ft
		for inner.K == "ptr" {
			inner = *inner.Elem
		}
		if inner.K == "cat" {
			k = 4
		}
	}
	name := tagNames[rapid.IntRange(0, len(tagNames)-1).Draw(t, "tagname")]
	switch k {
	case 0, 1, 2, 3:
		return ""
	case 4, 5:
		if name == "-" {
			if o.Flav == FlavRoundTrip {
				return ""
			}
			return `json:"-"`
		}
		return fmt.Sprintf(`json:%q`, name)
	case 6:
		if name == "-" {
			name = "-,"
			return `json:"-,"`
		}
		return fmt.Sprintf(`json:%q`, name+",omitempty")
	case 7:
		return `json:",omitempty"`
	case 8:
		return `json:",string"`
	case 9:
		if name == "-" {
			name = "dash"
		}
		return fmt.Sprintf(`json:%q`, name+",string")
	case 10:
		if o.Flav == FlavRoundTrip {
			return ""
		}
		return `json:"-"`
	default:
		return fmt.Sprintf(`json:%q other:"x"`, name+",omitempty,string")
	}
}

// ---- values

// ValOpt controls the value generator.
type ValOpt struct {
	InvalidUTF8 bool // strings may hold invalid UTF-8
	NaN         bool // floats may be NaN/Inf
	RoundTrip   bool // interface{} holds only JSON-native dynamic types; lossless choices only
	Long        bool
	HTMLFree    bool // RawMessage/Number content without HTML characters
	BadNumbers  bool // json.Number may hold text that is not a JSON number (encoders must refuse it)
}

var intEdges = []int64{0, 1, -1, 2, 10, 100, 127, 128, -128, -129, 255, 256, 32767, 32768, -32768, 65535, 65536, 1<<31 - 1, 1 << 31, -(1 << 31), 1<<32 - 1, 1 << 32, 1<<53 - 1, 1 << 53, 1<<53 + 1, math.MaxInt64, math.MinInt64, 999999999999999999, -1000000000000000000}

func drawInt(t *rapid.T, bits int) int64 {
	var v int64
	if rapid.Bool().Draw(t, "edge") {
		v = intEdges[rapid.IntRange(0, len(intEdges)-1).Draw(t, "iedge")]
	} else {
		v = rapid.Int64().Draw(t, "ival") >> uint(rapid.IntRange(0, 63).Draw(t, "ishift"))
	}
	switch bits {
	case 8:
		return int64(int8(v))
	case 16:
		return int64(int16(v))
	case 32:
		return int64(int32(v))
	}
	return v
}

func drawUint(t *rapid.T, bits int) uint64 {
	var v uint64
	if rapid.Bool().Draw(t, "edge") {
		v = uint64(intEdges[rapid.IntRange(0, len(intEdges)-1).Draw(t, "uedge")])
	} else {
		v = rapid.Uint64().Draw(t, "uval") >> uint(rapid.IntRange(0, 63).Draw(t, "ushift"))
	}
	switch bits {
	case 8:
		return uint64(uint8(v))
	case 16:
		return uint64(uint16(v))
	case 32:
		return uint64(uint32(v))
	}
	return v
}

var floatEdges = []float64{0, math.Copysign(0, -1), 1, -1, 0.1, 0.5, 1e21, 1e20, 9.999999999999999e20, 1e-6, 1e-7, 9.999999999999999e-7, 123456789, 1.5e300, 5e-324, math.MaxFloat64, math.SmallestNonzeroFloat64, math.MaxFloat32, math.SmallestNonzeroFloat32, 1 << 53, 1<<53 + 2, 3.14159, 100, 1e15, 1e16, 1e17, 0.000001, 0.0000001, 1e23, 8.41e21, 2.5e-8}

func drawFloat(t *rapid.T, bits int, nan bool) float64 {
	var f float64
	switch rapid.IntRange(0, 3).Draw(t, "fkind") {
	case 0:
		f = floatEdges[rapid.IntRange(0, len(floatEdges)-1).Draw(t, "fedge")]
	case 1:
		f = float64(rapid.IntRange(-100000, 100000).Draw(t, "fdec")) / math.Pow10(rapid.IntRange(0, 5).Draw(t, "fscale"))
	default:
		if bits == 32 {
			f = float64(math.Float32frombits(rapid.Uint32().Draw(t, "f32")))
		} else {
			f = math.Float64frombits(rapid.Uint64().Draw(t, "f64"))
		}
	}
	if bits == 32 {
		f = float64(float32(f))
	}
	if !nan && (math.IsNaN(f) || math.IsInf(f, 0)) {
		f = 42.5
	}
	if nan && rapid.IntRange(0, 15).Draw(t, "special") == 0 {
		f = []float64{math.NaN(), math.Inf(1), math.Inf(-1)}[rapid.IntRange(0, 2).Draw(t, "whichnan")]
	}
	return f
}

var (
	tNumber  = reflect.TypeOf(json.Number(""))
	tRaw     = reflect.TypeOf(json.RawMessage(nil))
	tMSlice  = reflect.TypeOf(cat.MSlice(nil))
	tURec    = reflect.TypeOf(cat.URec{})
	tDur     = reflect.TypeOf(time.Duration(0))
	tIface   = reflect.TypeOf((*interface{})(nil)).Elem()
	tNIface  = reflect.TypeOf((*cat.NIface)(nil)).Elem()
	tTKey    = reflect.TypeOf(cat.TKey(""))
	tMBoth   = reflect.TypeOf(cat.MBoth{})
	tTStruct = reflect.TypeOf(cat.TStructKey{})
)

// Value draws a value of type ty.
func Value(t *rapid.T, ty reflect.Type, o ValOpt) reflect.Value {
	return valueAt(t, ty, o, 4)
}

func compactDoc(t *rapid.T, o ValOpt) []byte {
	// a compact valid document without white space; strings clean
	d := ValidDoc(t, DocOpt{NoSpace: true, MaxDepth: 2, MaxWidth: 3, KeyPool: []string{"a", "b", "k"}, Str: StrOpt{MaxPieces: 2}})
	if o.HTMLFree {
		for i, c := range d {
			if c == '<' || c == '>' || c == '&' {
				d[i] = '_'
			}
		}
		// U+2028/2029 are escaped by HTMLEscape as well
		d = []byte(replaceAll(string(d), " ", "_", " ", "_"))
	}
	return d
}

func replaceAll(s string, pairs ...string) string {
	for i := 0; i+1 < len(pairs); i += 2 {
		for {
			j := indexOf(s, pairs[i])
			if j < 0 {
				break
			}
			s = s[:j] + pairs[i+1] + s[j+len(pairs[i]):]
		}
	}
	return s
}

func indexOf(s, sub string) int {
	for i := 0; i+len(sub) <= len(s); i++ {
		if s[i:i+len(sub)] == sub {
			return i
		}
	}
	return -1
}

func valueAt(t *rapid.T, ty reflect.Type, o ValOpt, depth int) reflect.Value {
	v := reflect.New(ty).Elem()
	// special named types first
	switch ty {
	case tNumber:
		if o.BadNumbers && rapid.IntRange(0, 5).Draw(t, "badnumber") == 0 {
			v.SetString(NearNumber(t))
			return v
		}
		v.SetString(NumberLit(t, NumOpt{}))
		return v
	case tRaw:
		switch k := rapid.IntRange(0, 5).Draw(t, "rawkind"); {
		case k == 0 && !o.RoundTrip:
			// nil RawMessage encodes as null (and decodes to the text "null": not lossless)
		default:
			v.SetBytes(compactDoc(t, o))
		}
		return v
	case tMSlice:
		if rapid.IntRange(0, 3).Draw(t, "msnil") != 0 {
			v.Set(reflect.MakeSlice(ty, rapid.IntRange(0, 5).Draw(t, "mslen"), 8))
		}
		return v
	case tURec:
		if rapid.Bool().Draw(t, "urec") {
			v.Field(0).SetString(string(compactDoc(t, o)))
		}
		return v
	}
	switch ty.Kind() {
	case reflect.Bool:
		v.SetBool(rapid.Bool().Draw(t, "bool"))
	case reflect.Int, reflect.Int64:
		v.SetInt(drawInt(t, 64))
	case reflect.Int8:
		v.SetInt(drawInt(t, 8))
	case reflect.Int16:
		v.SetInt(drawInt(t, 16))
	case reflect.Int32:
		v.SetInt(drawInt(t, 32))
	case reflect.Uint, reflect.Uint64, reflect.Uintptr:
		v.SetUint(drawUint(t, 64))
	case reflect.Uint8:
		v.SetUint(drawUint(t, 8))
	case reflect.Uint16:
		v.SetUint(drawUint(t, 16))
	case reflect.Uint32:
		v.SetUint(drawUint(t, 32))
	case reflect.Float32:
		v.SetFloat(drawFloat(t, 32, o.NaN))
	case reflect.Float64:
		v.SetFloat(drawFloat(t, 64, o.NaN))
	case reflect.String:
		v.SetString(GoString(t, o.InvalidUTF8, o.Long))
	case reflect.Ptr:
		if depth <= 0 || rapid.IntRange(0, 3).Draw(t, "nilptr") == 0 {
			return v
		}
		p := reflect.New(ty.Elem())
		p.Elem().Set(valueAt(t, ty.Elem(), o, depth-1))
		v.Set(p)
	case reflect.Interface:
		if ty.NumMethod() != 0 {
			return v
		}
		v2 := ifaceValue(t, o, depth)
		if v2.IsValid() {
			v.Set(v2)
		}
	case reflect.Slice:
		k := rapid.IntRange(0, 7).Draw(t, "slicekind")
		if k == 0 {
			return v
		}
		n := 0
		if k > 1 && depth > 0 {
			n = rapid.IntRange(1, 4).Draw(t, "slen")
			if ty.Elem().Kind() == reflect.Uint8 {
				n = []int{1, 2, 3, 4, 5, 31, 32, 33, 100}[rapid.IntRange(0, 8).Draw(t, "blen")]
			}
		}
		s := reflect.MakeSlice(ty, n, n+rapid.IntRange(0, 2).Draw(t, "extracap"))
		for i := 0; i < n; i++ {
			s.Index(i).Set(valueAt(t, ty.Elem(), o, depth-1))
		}
		v.Set(s)
	case reflect.Array:
		for i := 0; i < ty.Len(); i++ {
			v.Index(i).Set(valueAt(t, ty.Elem(), o, depth-1))
		}
	case reflect.Map:
		k := rapid.IntRange(0, 7).Draw(t, "mapkind")
		if k == 0 {
			return v
		}
		m := reflect.MakeMap(ty)
		if k > 1 && depth > 0 {
			n := rapid.IntRange(1, 4).Draw(t, "mlen")
			// now and then a map big enough for every stage of the key sorter (insertion sort below 12,
			// radix quicksort, heapsort fallback when many keys share a long prefix)
			switch rapid.IntRange(0, 11).Draw(t, "mbig") {
			case 0:
				n = rapid.IntRange(5, 16).Draw(t, "mlen2")
			case 1:
				n = rapid.IntRange(17, 70).Draw(t, "mlen3")
			}
			ed := depth - 1
			if n > 8 && ed > 0 {
				ed = 0
			}
			kk := ty.Key().Kind()
			clustered := n > 4 && rapid.Bool().Draw(t, "mclustered")
			var prefix string
			var base int64
			if clustered {
				prefix = string(asciiRun(t, []int{0, 1, 4, 8, 10, 12, 16, 24, 40}[rapid.IntRange(0, 8).Draw(t, "mprefix")]))
				base = drawInt(t, 64)
			}
			for i := 0; i < n; i++ {
				var kv reflect.Value
				switch {
				case clustered && kk == reflect.String && ty.Key().NumMethod() == 0:
					kv = reflect.New(ty.Key()).Elem()
					suffix := []string{"", "a", "b", "aa", "ab", "a\x00", "\x7f", "\xc3\xa9", "z"}[i%9]
					if i >= 9 {
						suffix = strconv.Itoa(i*7919%1000) + suffix
					}
					kv.SetString(prefix + suffix)
				case clustered && kk >= reflect.Int && kk <= reflect.Int64 && ty.Key().NumMethod() == 0:
					kv = reflect.New(ty.Key()).Elem()
					kv.SetInt(reflect.ValueOf(base + int64(i*37%101)).Convert(ty.Key()).Int())
				case clustered && kk >= reflect.Uint && kk <= reflect.Uintptr && ty.Key().NumMethod() == 0:
					kv = reflect.New(ty.Key()).Elem()
					kv.SetUint(reflect.ValueOf(uint64(base) + uint64(i*37%101)).Convert(ty.Key()).Uint())
				default:
					kv = valueAt(t, ty.Key(), ValOpt{RoundTrip: o.RoundTrip}, depth-1)
				}
				m.SetMapIndex(kv, valueAt(t, ty.Elem(), o, ed))
			}
		}
		v.Set(m)
	case reflect.Struct:
		for i := 0; i < ty.NumField(); i++ {
			f := v.Field(i)
			if !f.CanSet() {
				if ty.Field(i).Anonymous && f.Kind() == reflect.Struct {
					// exported fields of an embedded unexported struct are settable
					for j := 0; j < f.NumField(); j++ {
						if f.Field(j).CanSet() {
							f.Field(j).Set(valueAt(t, f.Field(j).Type(), o, depth-1))
						}
					}
				}
				continue
			}
			f.Set(valueAt(t, f.Type(), o, depth-1))
		}
	}
	return v
}

// ifaceValue draws the dynamic value of an interface{}.
func ifaceValue(t *rapid.T, o ValOpt, depth int) reflect.Value {
	max := 5
	if !o.RoundTrip {
		max = 9
	}
	if depth <= 0 {
		max = 3
	}
	switch rapid.IntRange(0, max).Draw(t, "dyn") {
	case 0:
		return reflect.Value{}
	case 1:
		return reflect.ValueOf(rapid.Bool().Draw(t, "dbool"))
	case 2:
		return reflect.ValueOf(drawFloat(t, 64, o.NaN))
	case 3:
		return reflect.ValueOf(GoString(t, o.InvalidUTF8, false))
	case 4:
		n := rapid.IntRange(0, 3).Draw(t, "dlen")
		s := make([]interface{}, n)
		for i := range s {
			if e := ifaceValue(t, o, depth-1); e.IsValid() {
				s[i] = e.Interface()
			}
		}
		return reflect.ValueOf(s)
	case 5:
		n := rapid.IntRange(0, 3).Draw(t, "dmlen")
		m := map[string]interface{}{}
		for i := 0; i < n; i++ {
			k := DefaultKeys[rapid.IntRange(0, 12).Draw(t, "dkey")]
			if e := ifaceValue(t, o, depth-1); e.IsValid() {
				m[k] = e.Interface()
			} else {
				m[k] = nil
			}
		}
		return reflect.ValueOf(m)
	case 6:
		return reflect.ValueOf(int(drawInt(t, 64)))
	case 7:
		cs := []string{"MVal", "TVal", "EmbA", "NInt", "Tree", "Omit", "MBoth", "Number", "DupA", "DupB", "MInt"}
		e := cat.Lookup(cs[rapid.IntRange(0, len(cs)-1).Draw(t, "dcat")])
		return valueAt(t, e.Type, o, depth-1)
	case 8:
		cs := []string{"MVal", "MPtr", "TPtr", "EmbA", "List", "StrOpt"}
		e := cat.Lookup(cs[rapid.IntRange(0, len(cs)-1).Draw(t, "dpcat")])
		p := reflect.New(e.Type)
		p.Elem().Set(valueAt(t, e.Type, o, depth-1))
		return p
	default:
		return reflect.ValueOf(uint16(drawUint(t, 16)))
	}
}
