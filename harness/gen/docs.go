package gen

import (
	"bytes"
	"strings"

	"pgregory.net/rapid"
)

// DocOpt controls the document grammar.
type DocOpt struct {
	Str       StrOpt
	Num       NumOpt
	MaxDepth  int  // default 4
	MaxWidth  int  // default 5
	Wide      bool // allow objects/arrays with 16, 17, 40 members
	KeyPool   []string
	NoSpace   bool
	OnlyASCII bool
	Nested    bool // root is a container and containers are rarely empty (for path-based properties)
	CastStr   bool // one string value in three spells a number, a boolean or something close to one (cross-kind accessors)
}

// CastStrings are string contents that the casting accessors of ast.Node turn into numbers and booleans, or refuse.
var CastStrings = []string{"true", "false", "1", "0", "t", "F", "TRUE", "True", "tRUE", "-12", "+7", "1.5", "-0", "1e3", "9223372036854775807", "9223372036854775808", "-9223372036854775809", "18446744073709551616", "abc", " 1", "1 ", "NaN", "Inf", "-inf", "0x10", "0x1p-2", "1_000", "1e400", "-1e400", "", "null", "0.0", "1e-400", "00", "1.", ".5"}


var spaces = []string{"", "", "", " ", "\n", "\t", "\r\n", "  ", " \n\t ", strings.Repeat(" ", 15), strings.Repeat(" ", 31), strings.Repeat(" ", 33), strings.Repeat(" ", 70), strings.Repeat("\n ", 40)}

// Space draws inter-token white space.
func Space(t *rapid.T) string {
	return spaces[rapid.IntRange(0, len(spaces)-1).Draw(t, "ws")]
}

// DefaultKeys is a key pool built to collide: duplicates, case variants,
// Unicode folds, escaped spellings, the empty key, integer-looking keys.
var DefaultKeys = []string{`a`, `A`, `b`, `B`, `ab`, `aB`, `Ab`, `AB`, ``, `1`, `-1`, `01`, `k`, `K`, "K", `s`, `S`, "ſ", u4("0061"), u4("0041"), `a` + u4("0062"), `x y`, `é`, `É`, `key_with_a_long_name_over_sixteen_bytes`, `KEY_WITH_A_LONG_NAME_OVER_SIXTEEN_BYTES`, `f0`, `f1`, `f2`, `F0`, `F1`, `m0`, `m1`, `null`, `true`}

type docGen struct {
	t *rapid.T
	o DocOpt
	b bytes.Buffer
}

func (g *docGen) ws() {
	if !g.o.NoSpace {
		g.b.WriteString(Space(g.t))
	}
}

func (g *docGen) key() {
	pool := g.o.KeyPool
	if pool == nil {
		pool = DefaultKeys
	}
	if rapid.IntRange(0, 9).Draw(g.t, "keysrc") < 8 {
		g.b.WriteByte('"')
		g.b.WriteString(pool[rapid.IntRange(0, len(pool)-1).Draw(g.t, "key")])
		g.b.WriteByte('"')
	} else {
		g.b.Write(Literal(StringBody(g.t, g.o.Str)))
	}
}

func (g *docGen) width() int {
	mw := g.o.MaxWidth
	if mw == 0 {
		mw = 5
	}
	if g.o.Wide && rapid.IntRange(0, 14).Draw(g.t, "wide") == 0 {
		return []int{15, 16, 17, 18, 33, 40}[rapid.IntRange(0, 5).Draw(g.t, "widew")]
	}
	if g.o.Nested && rapid.IntRange(0, 7).Draw(g.t, "nonempty") != 0 {
		return rapid.IntRange(1, mw).Draw(g.t, "width1")
	}
	return rapid.IntRange(0, mw).Draw(g.t, "width")
}

func (g *docGen) value(depth int) {
	maxKind := 9
	if depth <= 0 {
		maxKind = 6
	}
	minKind := 0
	if g.o.Nested && depth > 0 && rapid.IntRange(0, 2).Draw(g.t, "nest") != 0 {
		minKind = 7
	}
	switch rapid.IntRange(minKind, maxKind).Draw(g.t, "vkind") {
	case 0:
		g.b.WriteString("null")
	case 1:
		g.b.WriteString("true")
	case 2:
		g.b.WriteString("false")
	case 3, 4:
		g.b.WriteString(NumberLit(g.t, g.o.Num))
	case 5, 6:
		if g.o.CastStr && rapid.IntRange(0, 2).Draw(g.t, "caststr") == 0 {
			g.b.WriteByte('"')
			g.b.WriteString(CastStrings[rapid.IntRange(0, len(CastStrings)-1).Draw(g.t, "caststrv")])
			g.b.WriteByte('"')
			break
		}
		g.b.Write(Literal(StringBody(g.t, g.o.Str)))
	case 7, 8:
		n := g.width()
		g.b.WriteByte('{')
		g.ws()
		for i := 0; i < n; i++ {
			if i > 0 {
				g.b.WriteByte(',')
				g.ws()
			}
			g.key()
			g.ws()
			g.b.WriteByte(':')
			g.ws()
			g.value(depth - 1)
			g.ws()
		}
		g.b.WriteByte('}')
	default:
		n := g.width()
		g.b.WriteByte('[')
		g.ws()
		for i := 0; i < n; i++ {
			if i > 0 {
				g.b.WriteByte(',')
				g.ws()
			}
			g.value(depth - 1)
			g.ws()
		}
		g.b.WriteByte(']')
	}
}

// ValidDoc draws a grammatical JSON document (string bodies per o.Str, so
// possibly flawed inside literals, never structurally).
func ValidDoc(t *rapid.T, o DocOpt) []byte {
	g := &docGen{t: t, o: o}
	d := o.MaxDepth
	if d == 0 {
		d = 4
	}
	g.ws()
	// bias the root to containers
	if !o.Nested && rapid.IntRange(0, 3).Draw(t, "rootscalar") == 0 {
		g.value(0)
	} else {
		g.value(rapid.IntRange(1, d).Draw(t, "depth"))
	}
	g.ws()
	return g.b.Bytes()
}

// Mutation names, recorded in cases for the class histogram.
var MutationKinds = []string{"delete-structural", "dup-structural", "replace-structural", "truncate", "append-junk", "near-literal", "bad-number", "insert-byte", "swap-bytes", "delete-byte", "control-in-string", "badutf8-in-string", "stray-in-space", "extra-comma"}

var junkTails = []string{"x", "]", "}", ",", "1", "null", `""`, "{}", " x", "\n]", ":", "\x00", "/", "//", "/**/", "\xff", "0", "e", "."}

var nearLiterals = []string{"nul", "nulll", "Null", "NULL", "truE", "tru", "True", "fals", "falsE", "False", "n", "t", "f", "nil", "none", "undefined", "tr", "fa", "nu", "trux", "nulx", "falsx", "truee", "t rue"}

func structuralPositions(doc []byte) []int {
	var ps []int
	in := false
	for i := 0; i < len(doc); i++ {
		c := doc[i]
		if in {
			if c == '\\' {
				i++
			} else if c == '"' {
				ps = append(ps, i)
				in = false
			}
			continue
		}
		switch c {
		case '"':
			in = true
			ps = append(ps, i)
		case '{', '}', '[', ']', ',', ':':
			ps = append(ps, i)
		}
	}
	return ps
}

// Mutate applies one mutation to doc and returns the result and the kind.
func Mutate(t *rapid.T, doc []byte) ([]byte, string) {
	k := rapid.IntRange(0, len(MutationKinds)-1).Draw(t, "mut")
	kind := MutationKinds[k]
	out := append([]byte(nil), doc...)
	sp := structuralPositions(doc)
	at := func(n int) int {
		if n <= 0 {
			return 0
		}
		return rapid.IntRange(0, n-1).Draw(t, "mutpos")
	}
	switch kind {
	case "delete-structural":
		if len(sp) == 0 {
			return append(out, ']'), kind
		}
		p := sp[at(len(sp))]
		out = append(out[:p], out[p+1:]...)
	case "dup-structural":
		if len(sp) == 0 {
			return append(out, ','), kind
		}
		p := sp[at(len(sp))]
		out = append(out[:p+1], out[p:]...)
	case "replace-structural":
		if len(sp) == 0 {
			return append([]byte{'['}, out...), kind
		}
		p := sp[at(len(sp))]
		out[p] = `{}[],:"`[rapid.IntRange(0, 6).Draw(t, "repl")]
	case "truncate":
		if len(out) == 0 {
			return out, kind
		}
		out = out[:at(len(out))]
	case "append-junk":
		out = append(out, pick(t, "junk", junkTails)...)
	case "near-literal":
		// replace a literal if there is one, else append
		lits := []string{"null", "true", "false"}
		for _, l := range lits {
			if i := bytes.Index(out, []byte(l)); i >= 0 {
				nl := pick(t, "nearlit", nearLiterals)
				return append(append(append([]byte(nil), out[:i]...), nl...), out[i+len(l):]...), kind
			}
		}
		out = []byte("[" + pick(t, "nearlit", nearLiterals) + "]")
	case "bad-number":
		bn := MalformedNumber(t)
		// replace first digit run if any
		for i := 0; i < len(out); i++ {
			if out[i] >= '0' && out[i] <= '9' && (i == 0 || out[i-1] != '"' && out[i-1] != '\\') {
				j := i
				for j < len(out) && (out[j] >= '0' && out[j] <= '9' || out[j] == '.' || out[j] == 'e' || out[j] == 'E' || out[j] == '-' || out[j] == '+') {
					j++
				}
				return append(append(append([]byte(nil), out[:i]...), bn...), out[j:]...), kind
			}
		}
		out = []byte("[" + bn + "]")
	case "insert-byte":
		p := at(len(out) + 1)
		c := []byte(`{}[],:"\x-0.e` + "\x00\xff\n ")[rapid.IntRange(0, 16).Draw(t, "ins")]
		out = append(out[:p], append([]byte{c}, out[p:]...)...)
	case "extra-comma":
		// a comma (with optional white space) right before a closing bracket or right after an opening one:
		// [1,2,] {"a":1 , } [,1] {,"a":1}; in an empty container: [,] {,}
		var br []int
		for _, p := range sp {
			if c := doc[p]; c == '{' || c == '[' || c == '}' || c == ']' {
				br = append(br, p)
			}
		}
		if len(br) == 0 {
			return append(out, ','), kind
		}
		p := br[at(len(br))]
		ins := []string{",", ", ", " ,", "\n,\t", ",    "}[rapid.IntRange(0, 4).Draw(t, "commaform")]
		if doc[p] == '{' || doc[p] == '[' {
			p++
		}
		out = append(out[:p], append([]byte(ins), out[p:]...)...)
	case "stray-in-space":
		// a run of white space between two tokens with one arbitrary byte inside it (inlined space skippers
		// treat the first bytes of a run differently from the rest)
		p := 0
		if len(sp) > 0 {
			i := at(len(sp))
			p = sp[i]
			closing := false
			if out[p] == '"' {
				q := 0
				for _, x := range sp[:i+1] {
					if out[x] == '"' {
						q++
					}
				}
				closing = q%2 == 0
			}
			// before the token or after it; never inside a string
			if closing || out[p] != '"' && rapid.Bool().Draw(t, "after") {
				p++
			}
		}
		ws := " \t\n\r"
		var run []byte
		for i, n := 0, rapid.IntRange(0, 4).Draw(t, "wsbefore"); i < n; i++ {
			run = append(run, ws[rapid.IntRange(0, 3).Draw(t, "ws")])
		}
		run = append(run, rapid.Byte().Draw(t, "stray"))
		for i, n := 0, rapid.IntRange(0, 2).Draw(t, "wsafter"); i < n; i++ {
			run = append(run, ws[rapid.IntRange(0, 3).Draw(t, "ws2")])
		}
		out = append(out[:p], append(run, out[p:]...)...)
	case "swap-bytes":
		if len(out) < 2 {
			return out, kind
		}
		p := at(len(out) - 1)
		out[p], out[p+1] = out[p+1], out[p]
	case "delete-byte":
		if len(out) == 0 {
			return out, kind
		}
		p := at(len(out))
		out = append(out[:p], out[p+1:]...)
	case "control-in-string", "badutf8-in-string":
		// insert inside the first string if any
		i := bytes.IndexByte(out, '"')
		if i < 0 {
			return out, kind
		}
		ins := []byte{byte(rapid.IntRange(0, 0x1f).Draw(t, "ctl"))}
		if kind == "badutf8-in-string" {
			ins = []byte(pick(t, "badutf", invalidUTF8))
		}
		out = append(out[:i+1], append(ins, out[i+1:]...)...)
	}
	return out, kind
}
