package gen

import (
	"math"
	"math/big"
	"strconv"
	"strings"

	"pgregory.net/rapid"
)

// NumOpt selects number literal families.
type NumOpt struct {
	Huge bool // allow hundreds of digits
}

var intBoundaryK = []uint{7, 8, 15, 16, 24, 31, 32, 53, 63, 64}

var specialNumbers = []string{
	"0", "-0", "0.0", "-0.0", "0e0", "-0e0", "0E+0", "0e-0", "0.000", "-0.0e-5", "1", "-1", "10", "1.0", "1e2", "10E-1", "1.5e0", "100e-2",
	"1e308", "1.7976931348623157e308", "1.7976931348623158e308", "1.797693134862315807e308", "1.7976931348623159e308", "1e309", "1E400", "-1e309", "1e-400", "-1e-400",
	"4.9e-324", "5e-324", "2.4703282292062327e-324", "2.4703282292062328e-324", "2.47e-324", "2.2250738585072014e-308", "2.2250738585072011e-308", "2.225073858507201e-308",
	"3.4028234663852886e38", "3.4028235e38", "3.4028236e38", "3.4028235677973366e38", "3.40282356779733661637539395458142568448e38", "1.401298464324817e-45", "1e-45", "7e-46", "7.006492321624085e-46", "1.1754943508222875e-38",
	"9007199254740992", "9007199254740993", "9007199254740991", "9007199254740993.0", "18014398509481985", "0.1", "0.2", "0.3", "1e21", "1e20", "999999999999999900000", "1e-6", "1e-7", "0.000001", "0.0000001",
	"123456789012345678901234567890", "0.00000000000000000000000000000000000001", "1e0000000000000000000001", "1e+0000000000000000000001", "0.1e1", "1e1000000", "1e-1000000", "0e1000000", "0e999999999999999999999",
	"2.641112596915286e-25", "7.038531e-26", "1.00000017881393432617187499", "1.00000017881393432617187500", "1.00000017881393432617187501", "16777217", "16777216", "33554433", "8.589973e9", "0.000000000000000000000000000000000000011754942807573642917",
}

var malformedNumbers = []string{"01", "-01", "1.", ".5", "-", "+1", "1e", "1e+", "1e-", "0x1", "1_0", "Infinity", "-Infinity", "NaN", "1.e5", "-.5", "1..5", "1e5.5", "00", "-00", "1E", "--1", "1e++1", "0.", "-0.", "0e", "1,5", "१"}

// exactDecimal renders a big.Float exactly.
func exactDecimal(f *big.Float) string {
	s := f.Text('e', 1100)
	// trim zeros of mantissa
	i := strings.IndexByte(s, 'e')
	m, e := s[:i], s[i:]
	if strings.Contains(m, ".") {
		m = strings.TrimRight(m, "0")
		m = strings.TrimSuffix(m, ".")
	}
	return m + e
}

func midpoint64(x float64) string {
	y := math.Nextafter(x, math.Inf(1))
	if math.IsInf(y, 0) || math.IsNaN(x) || math.IsInf(x, 0) {
		return "1"
	}
	a := new(big.Float).SetPrec(2200).SetFloat64(x)
	b := new(big.Float).SetPrec(2200).SetFloat64(y)
	a.Add(a, b)
	a.Quo(a, big.NewFloat(2))
	return exactDecimal(a)
}

func midpoint32(x float32) string {
	y := math.Nextafter32(x, float32(math.Inf(1)))
	if math.IsInf(float64(y), 0) || x != x || math.IsInf(float64(x), 0) {
		return "1"
	}
	a := new(big.Float).SetPrec(2200).SetFloat64(float64(x))
	b := new(big.Float).SetPrec(2200).SetFloat64(float64(y))
	a.Add(a, b)
	a.Quo(a, big.NewFloat(2))
	return exactDecimal(a)
}

// bumpLastDigit changes the last mantissa digit of a decimal literal by ±1 or
// appends a digit, producing a near neighbour of a rounding boundary.
func bumpLastDigit(t *rapid.T, lit string) string {
	i := strings.IndexAny(lit, "eE")
	m, e := lit, ""
	if i >= 0 {
		m, e = lit[:i], lit[i:]
	}
	switch rapid.IntRange(0, 3).Draw(t, "bump") {
	case 0:
		return lit
	case 1:
		if !strings.Contains(m, ".") {
			m += "."
		}
		return m + "0000000000000000000000001" + e
	case 2:
		// decrement: replace last non-zero digit d by d-1 followed by 9s
		b := []byte(m)
		for j := len(b) - 1; j >= 0; j-- {
			if b[j] >= '1' && b[j] <= '9' {
				b[j]--
				if !strings.Contains(string(b), ".") {
					return string(b) + ".99999999999999999999" + e
				}
				return string(b) + "99999999999999999999" + e
			}
		}
		return lit
	default:
		if !strings.Contains(m, ".") {
			m += "."
		}
		return m + "5" + e
	}
}

// reshape rewrites a valid literal into an equivalent spelling: exponent case,
// explicit plus, leading exponent zeros, shifted decimal point.
func reshape(t *rapid.T, lit string) string {
	switch rapid.IntRange(0, 5).Draw(t, "reshape") {
	case 0, 1, 2:
		return lit
	case 3:
		return strings.Replace(lit, "e", "E", 1)
	case 4:
		if i := strings.IndexAny(lit, "eE"); i >= 0 && i+1 < len(lit) {
			if lit[i+1] == '-' || lit[i+1] == '+' {
				return lit[:i+2] + "00" + lit[i+2:]
			}
			return lit[:i+1] + "+0" + lit[i+1:]
		}
		return lit + "e0"
	default:
		if !strings.ContainsAny(lit, ".eE") {
			return lit + ".0"
		}
		return lit
	}
}

// NumberLit draws a well-formed JSON number literal.
func NumberLit(t *rapid.T, o NumOpt) string {
	k := rapid.IntRange(0, 13).Draw(t, "numkind")
	switch k {
	case 0:
		return pick(t, "special", specialNumbers)
	case 1: // small ints
		return strconv.Itoa(rapid.IntRange(-1000, 1000).Draw(t, "small"))
	case 2: // integer width boundaries
		kk := intBoundaryK[rapid.IntRange(0, len(intBoundaryK)-1).Draw(t, "k")]
		v := new(big.Int).Lsh(big.NewInt(1), kk)
		v.Add(v, big.NewInt(int64(rapid.IntRange(-2, 2).Draw(t, "delta"))))
		if rapid.Bool().Draw(t, "neg") {
			v.Neg(v)
		}
		s := v.String()
		switch rapid.IntRange(0, 5).Draw(t, "intform") {
		case 0:
			s += ".0"
		case 1:
			s += "e0"
		case 2:
			s += ".5"
		}
		return s
	case 3: // any int64/uint64
		if rapid.Bool().Draw(t, "u") {
			return strconv.FormatUint(rapid.Uint64().Draw(t, "u64"), 10)
		}
		return strconv.FormatInt(rapid.Int64().Draw(t, "i64"), 10)
	case 4, 5: // shortest repr of random float64 bits
		f := math.Float64frombits(rapid.Uint64().Draw(t, "f64bits"))
		if math.IsNaN(f) || math.IsInf(f, 0) {
			f = 1.5
		}
		fm := byte('g')
		if rapid.Bool().Draw(t, "efmt") {
			fm = 'e'
		}
		return reshape(t, strconv.FormatFloat(f, fm, -1, 64))
	case 6: // shortest repr of random float32 bits
		f := math.Float32frombits(rapid.Uint32().Draw(t, "f32bits"))
		if f != f || math.IsInf(float64(f), 0) {
			f = 2.5
		}
		return reshape(t, strconv.FormatFloat(float64(f), 'g', -1, 32))
	case 7: // float64 with extra digits
		f := math.Float64frombits(rapid.Uint64().Draw(t, "f64bits"))
		if math.IsNaN(f) || math.IsInf(f, 0) {
			f = 1.5
		}
		prec := rapid.IntRange(17, 40).Draw(t, "prec")
		if o.Huge && rapid.IntRange(0, 9).Draw(t, "huge") == 0 {
			prec = rapid.IntRange(100, 900).Draw(t, "hprec")
		}
		return strconv.FormatFloat(f, 'e', prec, 64)
	case 8: // midpoint between adjacent doubles and neighbours
		bits := rapid.Uint64().Draw(t, "midbits") &^ (1 << 63)
		f := math.Float64frombits(bits)
		if math.IsNaN(f) || math.IsInf(f, 0) {
			f = 1
		}
		s := bumpLastDigit(t, midpoint64(f))
		if rapid.Bool().Draw(t, "neg") {
			s = "-" + s
		}
		return s
	case 9: // midpoint between adjacent float32s
		bits := rapid.Uint32().Draw(t, "mid32") &^ (1 << 31)
		f := math.Float32frombits(bits)
		if f != f || math.IsInf(float64(f), 0) {
			f = 1
		}
		s := bumpLastDigit(t, midpoint32(f))
		if rapid.Bool().Draw(t, "neg") {
			s = "-" + s
		}
		return s
	case 10: // decimal digit strings with exponent
		nd := rapid.IntRange(1, 25).Draw(t, "nd")
		if o.Huge && rapid.IntRange(0, 9).Draw(t, "huge") == 0 {
			nd = rapid.IntRange(100, 800).Draw(t, "hnd")
		}
		var sb strings.Builder
		if rapid.Bool().Draw(t, "neg") {
			sb.WriteByte('-')
		}
		dot := rapid.IntRange(0, nd).Draw(t, "dot")
		first := rapid.IntRange(1, 9).Draw(t, "d0")
		seed := rapid.Uint64().Draw(t, "digits")
		for i := 0; i < nd; i++ {
			d := byte('0' + (seed>>(uint(i)%60))%10)
			if i == 0 {
				d = byte('0' + first)
				if dot == 0 {
					sb.WriteString("0.")
				}
			} else if i == dot {
				sb.WriteByte('.')
			}
			sb.WriteByte(d)
			seed = seed*6364136223846793005 + 1442695040888963407
		}
		if rapid.Bool().Draw(t, "hasexp") {
			sb.WriteByte("eE"[rapid.IntRange(0, 1).Draw(t, "E")])
			sb.WriteString(strconv.Itoa(rapid.IntRange(-340, 320).Draw(t, "exp")))
		}
		return sb.String()
	case 11: // powers of ten / two
		if rapid.Bool().Draw(t, "ten") {
			return "1e" + strconv.Itoa(rapid.IntRange(-330, 312).Draw(t, "p10"))
		}
		return strconv.FormatFloat(math.Ldexp(1, rapid.IntRange(-1074, 1023).Draw(t, "p2")), 'g', -1, 64)
	case 12: // around notation thresholds
		base := []float64{1e21, 1e-6, 1e20, 1e-7, 123456789, 1e15, 1e16, 1e17}[rapid.IntRange(0, 7).Draw(t, "thr")]
		f := base
		for i, n := 0, rapid.IntRange(-3, 3).Draw(t, "ulps"); i != n; {
			if n > 0 {
				f = math.Nextafter(f, math.Inf(1))
				i++
			} else {
				f = math.Nextafter(f, 0)
				i--
			}
		}
		return strconv.FormatFloat(f, 'g', -1, 64)
	default: // small decimals
		return strconv.FormatFloat(float64(rapid.IntRange(-100000, 100000).Draw(t, "dec"))/math.Pow10(rapid.IntRange(0, 6).Draw(t, "scale")), 'f', -1, 64)
	}
}

// MalformedNumber draws a token that looks like a number but is not one.
func MalformedNumber(t *rapid.T) string { return pick(t, "badnum", malformedNumbers) }

// NearNumber draws text for a json.Number that is close to, but usually not, a JSON number: a listed malformed
// token, or a well-formed literal truncated, or with one byte inserted, replaced or removed. (It may come out
// well-formed; the oracle decides.)
func NearNumber(t *rapid.T) string {
	switch rapid.IntRange(0, 5).Draw(t, "nearkind") {
	case 0:
		return MalformedNumber(t)
	case 1:
		return pick(t, "nearfixed", []string{"", " ", " 1", "1 ", "1\n", "\"1\"", "null", "true", "1e+", "1E-", "-", "-e1", "0e", "0.e1", "1.0e", "1.0e+", "-0.5E-", "1e+ 1", "1e1.0", "0x10", "1e1e1", "01e1", "-01.5", "1.5.", "+0"})
	}
	lit := NumberLit(t, NumOpt{})
	i := rapid.IntRange(0, len(lit)).Draw(t, "nearpos")
	ch := pick(t, "nearch", []string{"+", "-", ".", "e", "E", "0", "9", " ", "x", "\""})
	switch rapid.IntRange(0, 3).Draw(t, "nearop") {
	case 0: // truncate
		return lit[:i]
	case 1: // insert
		return lit[:i] + ch + lit[i:]
	case 2: // replace
		if i < len(lit) {
			return lit[:i] + ch + lit[i+1:]
		}
		return lit + ch
	default: // remove
		if i < len(lit) {
			return lit[:i] + lit[i+1:]
		}
		return lit
	}
}
