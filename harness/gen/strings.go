// Package gen holds the rapid generators shared by the properties. Every random
// choice goes through rapid so that cases shrink and replay.
package gen

import (
	"fmt"
	"strings"
	"unicode/utf8"

	"pgregory.net/rapid"
)

// StrOpt selects which kinds of string content may be generated.
type StrOpt struct {
	Control     bool // raw control bytes
	InvalidUTF8 bool // invalid UTF-8 byte sequences
	BadEscape   bool // malformed escapes
	LoneSurr    bool // lone surrogate escapes
	NoEscapes   bool // raw content only (for Go string values rather than JSON literals: escapes are just bytes then)
	MaxPieces   int  // default 6
	Long        bool // allow bodies of several KiB
}

// Clean is the option set for literals encoding/json accepts without change of meaning.
var Clean = StrOpt{LoneSurr: false}

// Hostile allows everything.
var Hostile = StrOpt{Control: true, InvalidUTF8: true, BadEscape: true, LoneSurr: true}

var asciiAlpha = []byte("abcdefghijklmnopqrstuvwxyzABCDEFGHIJKLMNOPQRSTUVWXYZ0123456789 _-.:;!#$%()*+,=?@[]^{|}~'`")

var simpleEscapes = []string{`\"`, `\\`, `\/`, `\b`, `\f`, `\n`, `\r`, `\t`}

var bmpEscapes = []string{u4("0000"), u4("0001"), u4("001f"), u4("0020"), u4("0022"), u4("005c"), u4("005C"), u4("002f"), u4("0041"), u4("00e9"), u4("00E9"), u4("07ff"), u4("0800"), u4("2028"), u4("2029"), u4("ffff"), u4("fffd"), u4("fffe"), u4("003c"), u4("003e"), u4("0026"), u4("d7ff"), u4("e000")}

var surrogatePairs = []string{u4("d83d") + u4("de00"), u4("D83D") + u4("DE00"), u4("d800") + u4("dc00"), u4("dbff") + u4("dfff"), u4("d834") + u4("dd1e")}

var loneSurrogates = []string{u4("d800"), u4("dfff"), u4("dc00"), u4("d83d"), u4("d83d") + "x", u4("d83d") + `\n`, u4("d83d") + u4("0041"), u4("d800") + u4("d800"), u4("d800") + u4("d800") + u4("dc00"), u4("dc00") + u4("d800"), u4("d83d") + `\` + "ude0", u4("d83d") + `\` + "u", u4("d83d") + `\`}

var badEscapes = []string{`\q`, `\` + "u12", `\` + "uZZZZ", `\` + "u123g", `\U0041`, `\x41`, `\'`, `\0`, `\a`, `\v`, `\` + "u", `\` + "u 123", `\` + "u+123", `\` + "u-123"}

var multiByte = []string{"é", "ß", "ø", "中", "文", "€", "߿", "ࠀ", "￿", "�", " ", " ", "😀", "𝄞", "\U00010000", "\U0010ffff", "ſ", "K", "İ", "ı"}

var htmlish = []string{"<", ">", "&", "<script>", "&amp;", "</", " ", " "}

var invalidUTF8 = []string{"\xff", "\xfe", "\x80", "\xbf", "\xc0\x80", "\xc1\xbf", "\xe0\x80\x80", "\xed\xa0\x80", "\xed\xbf\xbf", "\xf0\x80\x80\x80", "\xf4\x90\x80\x80", "\xf5\x80\x80\x80", "\xc3", "\xe4\xb8", "\xf0\x9f\x98", "\xe4", "\xf0", "\xf0\x9f", "a\xc3", "\xc3("}

// RunLengths are ASCII run lengths chosen to land on SIMD block edges.
var runLengths = []int{0, 1, 2, 3, 5, 7, 8, 9, 14, 15, 16, 17, 23, 24, 30, 31, 32, 33, 47, 48, 62, 63, 64, 65, 95, 96, 127, 128, 129}

func pick(t *rapid.T, label string, xs []string) string {
	return xs[rapid.IntRange(0, len(xs)-1).Draw(t, label)]
}

func asciiRun(t *rapid.T, n int) []byte {
	if n == 0 {
		return nil
	}
	// one drawn start index + stride keeps the draw count low while varying content
	start := rapid.IntRange(0, len(asciiAlpha)-1).Draw(t, "astart")
	out := make([]byte, n)
	for i := range out {
		out[i] = asciiAlpha[(start+i*7)%len(asciiAlpha)]
	}
	return out
}

// StringBody draws the body of a JSON string literal (the bytes between the
// quotes). With NoEscapes set it draws raw Go string content instead.
func StringBody(t *rapid.T, o StrOpt) []byte {
	maxp := o.MaxPieces
	if maxp == 0 {
		maxp = 6
	}
	np := rapid.IntRange(0, maxp).Draw(t, "npieces")
	var out []byte
	for i := 0; i < np; i++ {
		k := rapid.IntRange(0, 11).Draw(t, "piece")
		switch k {
		case 0, 1:
			n := runLengths[rapid.IntRange(0, len(runLengths)-1).Draw(t, "runlen")]
			if o.Long && rapid.IntRange(0, 40).Draw(t, "long") == 0 {
				n = rapid.IntRange(200, 9000).Draw(t, "longlen")
			}
			out = append(out, asciiRun(t, n)...)
		case 2:
			out = append(out, pick(t, "mb", multiByte)...)
		case 3:
			if o.NoEscapes {
				out = append(out, []byte{'"', '\\', '/', '\b', '\f', '\n', '\r', '\t', 0, 0x1f, 0x7f}[rapid.IntRange(0, 10).Draw(t, "rawesc")])
			} else {
				out = append(out, pick(t, "esc", simpleEscapes)...)
			}
		case 4:
			if o.NoEscapes {
				out = append(out, pick(t, "mb", multiByte)...)
			} else {
				out = append(out, pick(t, "bmp", bmpEscapes)...)
			}
		case 5:
			if o.NoEscapes {
				out = append(out, "😀"...)
			} else {
				out = append(out, pick(t, "pair", surrogatePairs)...)
			}
		case 6:
			h := pick(t, "html", htmlish)
			out = append(out, h...)
			if rapid.IntRange(0, 3).Draw(t, "htmlrun") == 0 {
				// a dense run: the escaped form is several times the input, output buffers are regrown more than once
				n := []int{2, 15, 16, 17, 31, 33, 64, 100, 400, 1500, 4000}[rapid.IntRange(0, 10).Draw(t, "htmlrunlen")]
				out = append(out, strings.Repeat(h, n)...)
			}
		case 7:
			if o.LoneSurr && !o.NoEscapes {
				out = append(out, pick(t, "lone", loneSurrogates)...)
			} else {
				out = append(out, asciiRun(t, 3)...)
			}
		case 8:
			if o.Control {
				out = append(out, byte(rapid.IntRange(0, 0x1f).Draw(t, "ctl")))
			} else {
				out = append(out, 'c')
			}
		case 9:
			if o.InvalidUTF8 {
				out = append(out, pick(t, "badutf", invalidUTF8)...)
			} else {
				out = append(out, "u"...)
			}
		case 10:
			if o.BadEscape && !o.NoEscapes {
				out = append(out, pick(t, "badesc", badEscapes)...)
			} else {
				out = append(out, 'e')
			}
		case 11:
			// arbitrary rune
			r := rune(rapid.IntRange(0x20, 0x10ffff).Draw(t, "rune"))
			if r >= 0xd800 && r <= 0xdfff || r == '"' || r == '\\' {
				r = 'r'
			}
			out = utf8.AppendRune(out, r)
		}
	}
	return out
}

// GoString draws raw Go string content (for values to be marshaled).
func GoString(t *rapid.T, invalidUTF8 bool, long bool) string {
	return string(StringBody(t, StrOpt{NoEscapes: true, Control: true, InvalidUTF8: invalidUTF8, Long: long}))
}

// Literal wraps a body in quotes.
func Literal(body []byte) []byte {
	out := make([]byte, 0, len(body)+2)
	out = append(out, '"')
	out = append(out, body...)
	return append(out, '"')
}

// RawBytes draws arbitrary bytes, biased to the JSON alphabet.
func RawBytes(t *rapid.T, maxLen int) []byte {
	n := rapid.IntRange(0, maxLen).Draw(t, "rawlen")
	alpha := []byte(`{}[],:"\ntrufalse0123456789-+.eE \t` + "\n\r\x00\xffé")
	jsonish := rapid.Bool().Draw(t, "jsonish")
	out := make([]byte, n)
	for i := range out {
		if jsonish {
			out[i] = alpha[rapid.IntRange(0, len(alpha)-1).Draw(t, "rb")]
		} else {
			out[i] = rapid.Byte().Draw(t, "rb")
		}
	}
	return out
}

// u4 spells a \\uXXXX escape.
func u4(hex string) string { return `\` + "u" + hex }

var _ = fmt.Sprintf
