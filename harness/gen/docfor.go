package gen

import (
	"bytes"
	"encoding"
	"encoding/base64"
	"encoding/json"
	"math/big"
	"reflect"
	"strconv"
	"strings"

	"pgregory.net/rapid"
)

// DocForOpt controls the type-directed document generator.
type DocForOpt struct {
	Str     StrOpt // content of generated string literals
	Perturb int    // one position in Perturb is replaced by something that does not fit (0 = default 8)
	Space   bool   // insert white space between tokens
}

var (
	jsonUnmarshalerT = reflect.TypeOf((*json.Unmarshaler)(nil)).Elem()
	textUnmarshalerT = reflect.TypeOf((*encoding.TextUnmarshaler)(nil)).Elem()
)

type docFor struct {
	t *rapid.T
	o DocForOpt
	b bytes.Buffer
}

// DocFor draws a document that mostly fits ty, with perturbations.
func DocFor(t *rapid.T, ty reflect.Type, o DocForOpt) []byte {
	if o.Perturb == 0 {
		o.Perturb = 8
	}
	g := &docFor{t: t, o: o}
	g.ws()
	g.value(ty, 5)
	g.ws()
	return g.b.Bytes()
}

func (g *docFor) ws() {
	if g.o.Space {
		g.b.WriteString(Space(g.t))
	}
}

// anyValue writes a value unrelated to the expected type.
func (g *docFor) anyValue(depth int) {
	d := ValidDoc(g.t, DocOpt{Str: g.o.Str, MaxDepth: 2, MaxWidth: 3, NoSpace: !g.o.Space})
	g.b.Write(bytes.TrimSpace(d))
}

func (g *docFor) str(body []byte) { g.b.Write(Literal(body)) }

func (g *docFor) intLit(bits int, unsigned bool) string {
	switch rapid.IntRange(0, 9).Draw(g.t, "intshape") {
	case 0, 1, 2, 3:
		return strconv.Itoa(rapid.IntRange(-3, 130).Draw(g.t, "smallint"))
	case 4, 5:
		// boundaries of the width
		v := new(big.Int).Lsh(big.NewInt(1), uint(bits))
		if !unsigned {
			v = new(big.Int).Lsh(big.NewInt(1), uint(bits-1))
		}
		v.Add(v, big.NewInt(int64(rapid.IntRange(-2, 1).Draw(g.t, "bdelta"))))
		if !unsigned && rapid.Bool().Draw(g.t, "bneg") {
			v.Neg(v)
		}
		return v.String()
	case 6:
		return []string{"1.0", "1e2", "1.5", "-0", "0.0", "1E0", "100e-2", "-1", "1e", "01", "0x1", "+1", "12345678901234567890123", "-12345678901234567890", "1e400", "2.0e0"}[rapid.IntRange(0, 15).Draw(g.t, "oddint")]
	default:
		if unsigned {
			return strconv.FormatUint(rapid.Uint64().Draw(g.t, "u64")>>uint(rapid.IntRange(0, 63).Draw(g.t, "ush")), 10)
		}
		return strconv.FormatInt(rapid.Int64().Draw(g.t, "i64")>>uint(rapid.IntRange(0, 63).Draw(g.t, "ish")), 10)
	}
}

func kindBits(k reflect.Kind) (int, bool) {
	switch k {
	case reflect.Int8:
		return 8, false
	case reflect.Int16:
		return 16, false
	case reflect.Int32:
		return 32, false
	case reflect.Int, reflect.Int64:
		return 64, false
	case reflect.Uint8:
		return 8, true
	case reflect.Uint16:
		return 16, true
	case reflect.Uint32:
		return 32, true
	}
	return 64, true
}

// fittingSample marshals a generated value of ty with encoding/json: a payload
// that the type's own Unmarshaler accepts.
func (g *docFor) fittingSample(ty reflect.Type) bool {
	v := Value(g.t, ty, ValOpt{RoundTrip: true, HTMLFree: true})
	var x interface{} = v.Interface()
	if v.CanAddr() {
		x = v.Addr().Interface()
	} else {
		p := reflect.New(ty)
		p.Elem().Set(v)
		x = p.Interface()
	}
	b, err := json.Marshal(x)
	if err != nil {
		return false
	}
	g.b.Write(b)
	return true
}

func (g *docFor) value(ty reflect.Type, depth int) {
	// perturbation: something that does not fit
	if rapid.IntRange(0, g.o.Perturb).Draw(g.t, "perturb") == 0 {
		switch rapid.IntRange(0, 3).Draw(g.t, "pkind") {
		case 0:
			g.b.WriteString("null")
		default:
			g.anyValue(depth)
		}
		return
	}
	if depth <= 0 {
		g.b.WriteString("null")
		return
	}
	// types with their own decoding methods: feed them what they produce themselves
	if ty.Kind() != reflect.Ptr && ty.Kind() != reflect.Interface && (reflect.PtrTo(ty).Implements(jsonUnmarshalerT) || reflect.PtrTo(ty).Implements(textUnmarshalerT)) {
		if rapid.IntRange(0, 5).Draw(g.t, "ufit") != 0 && g.fittingSample(ty) {
			return
		}
		if rapid.Bool().Draw(g.t, "ufail") {
			g.b.WriteString(`"fail"`)
		} else {
			g.anyValue(depth)
		}
		return
	}
	switch ty {
	case tNumber:
		switch rapid.IntRange(0, 5).Draw(g.t, "numberform") {
		case 0:
			g.b.WriteString(`"` + NumberLit(g.t, NumOpt{}) + `"`)
		case 1:
			g.b.WriteString(`"` + pick(g.t, "badnumstr", []string{"abc", "", "1e", " 1", "1 ", "0x1", "--1", "1.", "NaN", "+1"}) + `"`)
		default:
			g.b.WriteString(NumberLit(g.t, NumOpt{}))
		}
		return
	case tRaw:
		g.anyValue(depth)
		return
	}
	switch ty.Kind() {
	case reflect.Bool:
		g.b.WriteString([]string{"true", "false"}[rapid.IntRange(0, 1).Draw(g.t, "boolv")])
	case reflect.Int, reflect.Int8, reflect.Int16, reflect.Int32, reflect.Int64, reflect.Uint, reflect.Uint8, reflect.Uint16, reflect.Uint32, reflect.Uint64, reflect.Uintptr:
		bits, uns := kindBits(ty.Kind())
		g.b.WriteString(g.intLit(bits, uns))
	case reflect.Float32, reflect.Float64:
		g.b.WriteString(NumberLit(g.t, NumOpt{}))
	case reflect.String:
		g.str(StringBody(g.t, g.o.Str))
	case reflect.Ptr:
		if rapid.IntRange(0, 4).Draw(g.t, "ptrnull") == 0 {
			g.b.WriteString("null")
			return
		}
		g.value(ty.Elem(), depth)
	case reflect.Interface:
		g.anyValue(depth)
	case reflect.Slice:
		if ty.Elem().Kind() == reflect.Uint8 && rapid.IntRange(0, 4).Draw(g.t, "bytesasarray") != 0 {
			g.base64()
			return
		}
		fallthrough
	case reflect.Array:
		n := rapid.IntRange(0, 4).Draw(g.t, "arrlen")
		if ty.Kind() == reflect.Slice && n == 0 && rapid.Bool().Draw(g.t, "slicenull") {
			g.b.WriteString("null")
			return
		}
		g.b.WriteByte('[')
		g.ws()
		for i := 0; i < n; i++ {
			if i > 0 {
				g.b.WriteByte(',')
				g.ws()
			}
			g.value(ty.Elem(), depth-1)
			g.ws()
		}
		g.b.WriteByte(']')
	case reflect.Map:
		n := rapid.IntRange(0, 4).Draw(g.t, "maplen")
		g.b.WriteByte('{')
		g.ws()
		for i := 0; i < n; i++ {
			if i > 0 {
				g.b.WriteByte(',')
				g.ws()
			}
			g.mapKey(ty.Key())
			g.ws()
			g.b.WriteByte(':')
			g.ws()
			g.value(ty.Elem(), depth-1)
			g.ws()
		}
		g.b.WriteByte('}')
	case reflect.Struct:
		g.object(ty, depth)
	default:
		g.anyValue(depth)
	}
}

func (g *docFor) base64() {
	n := []int{0, 1, 2, 3, 4, 5, 6, 16, 31, 32, 33, 57, 100}[rapid.IntRange(0, 12).Draw(g.t, "b64len")]
	raw := make([]byte, n)
	seed := rapid.Uint64().Draw(g.t, "b64seed")
	for i := range raw {
		raw[i] = byte(seed >> (uint(i%8) * 8))
		seed = seed*6364136223846793005 + 1442695040888963407
	}
	var s string
	switch rapid.IntRange(0, 9).Draw(g.t, "b64form") {
	case 0:
		s = base64.RawStdEncoding.EncodeToString(raw) // no padding
	case 1:
		s = base64.URLEncoding.EncodeToString(raw)
	case 2:
		e := base64.StdEncoding.EncodeToString(raw)
		if len(e) > 4 {
			e = e[:4] + `\n` + e[4:] // escaped newline inside: encoding/json's decoder ignores \r and \n
		}
		s = e
	case 3:
		s = base64.StdEncoding.EncodeToString(raw) + "="
	case 4:
		s = "!" + base64.StdEncoding.EncodeToString(raw)
	case 5:
		e := base64.StdEncoding.EncodeToString(raw)
		s = strings.Replace(e, "A", u4("0041"), 1) // escaped character inside the payload
	default:
		s = base64.StdEncoding.EncodeToString(raw)
	}
	g.b.WriteString(`"` + s + `"`)
}

func (g *docFor) mapKey(kt reflect.Type) {
	if rapid.IntRange(0, 6).Draw(g.t, "keyodd") == 0 {
		g.b.WriteString(`"` + DefaultKeys[rapid.IntRange(0, len(DefaultKeys)-1).Draw(g.t, "oddkey")] + `"`)
		return
	}
	if reflect.PtrTo(kt).Implements(textUnmarshalerT) || reflect.PtrTo(kt).Implements(jsonUnmarshalerT) {
		v := Value(g.t, kt, ValOpt{RoundTrip: true})
		m := reflect.MakeMap(reflect.MapOf(kt, reflect.TypeOf(0)))
		m.SetMapIndex(v, reflect.ValueOf(1))
		if b, err := json.Marshal(m.Interface()); err == nil && len(b) > 4 {
			// {"key":1}
			if i := bytes.LastIndex(b, []byte(`":1}`)); i > 0 {
				g.b.Write(b[1 : i+1])
				return
			}
		}
	}
	switch kt.Kind() {
	case reflect.Int, reflect.Int8, reflect.Int16, reflect.Int32, reflect.Int64, reflect.Uint, reflect.Uint8, reflect.Uint16, reflect.Uint32, reflect.Uint64, reflect.Uintptr:
		bits, uns := kindBits(kt.Kind())
		g.b.WriteString(`"` + g.intLit(bits, uns) + `"`)
	default:
		if rapid.Bool().Draw(g.t, "poolkey") {
			g.b.WriteString(`"` + DefaultKeys[rapid.IntRange(0, len(DefaultKeys)-1).Draw(g.t, "mkey")] + `"`)
		} else {
			g.str(StringBody(g.t, g.o.Str))
		}
	}
}

// fieldKeys lists (JSON name, field type, quoted) candidates of a struct, including promoted ones.
type fieldKey struct {
	name   string
	ty     reflect.Type
	quoted bool
}

func collectFieldKeys(ty reflect.Type, depth int, out *[]fieldKey) {
	if depth > 3 {
		return
	}
	for i := 0; i < ty.NumField(); i++ {
		f := ty.Field(i)
		tag := f.Tag.Get("json")
		name := tag
		opts := ""
		if j := strings.IndexByte(tag, ','); j >= 0 {
			name, opts = tag[:j], tag[j+1:]
		}
		if f.Anonymous && name == "" {
			ft := f.Type
			if ft.Kind() == reflect.Ptr {
				ft = ft.Elem()
			}
			if ft.Kind() == reflect.Struct {
				collectFieldKeys(ft, depth+1, out)
				continue
			}
		}
		if name == "" {
			name = f.Name
		}
		quoted := false
		for _, o := range strings.Split(opts, ",") {
			if o == "string" {
				quoted = true
			}
		}
		*out = append(*out, fieldKey{name, f.Type, quoted})
	}
}

func flipCase(s string) string {
	b := []byte(s)
	changed := false
	for i, c := range b {
		switch {
		case c >= 'a' && c <= 'z':
			b[i] = c - 32
			changed = true
		case c >= 'A' && c <= 'Z':
			b[i] = c + 32
			changed = true
		}
		if changed && i%2 == 0 {
			break
		}
	}
	return string(b)
}

func escapeKey(s string) string {
	var sb strings.Builder
	for _, r := range s {
		switch {
		case r == '"' || r == '\\':
			sb.WriteByte('\\')
			sb.WriteRune(r)
		case r < 0x20:
			sb.WriteString(u4(strconv.FormatInt(int64(r)+0x10000, 16)[1:]))
		default:
			sb.WriteRune(r)
		}
	}
	return sb.String()
}

func (g *docFor) object(ty reflect.Type, depth int) {
	var keys []fieldKey
	collectFieldKeys(ty, 0, &keys)
	n := len(keys)
	extra := rapid.IntRange(0, 2).Draw(g.t, "extrakeys")
	total := 0
	if n > 0 {
		total = rapid.IntRange(0, n+1).Draw(g.t, "nkeys")
	}
	total += extra
	g.b.WriteByte('{')
	g.ws()
	for i := 0; i < total; i++ {
		if i > 0 {
			g.b.WriteByte(',')
			g.ws()
		}
		var fk *fieldKey
		if n > 0 && rapid.IntRange(0, 5).Draw(g.t, "known") != 0 {
			fk = &keys[rapid.IntRange(0, n-1).Draw(g.t, "whichfield")]
		}
		if fk == nil {
			g.b.WriteString(`"` + DefaultKeys[rapid.IntRange(0, len(DefaultKeys)-1).Draw(g.t, "unkkey")] + `"`)
			g.ws()
			g.b.WriteByte(':')
			g.ws()
			g.anyValue(depth - 1)
			g.ws()
			continue
		}
		name := escapeKey(fk.name)
		switch rapid.IntRange(0, 9).Draw(g.t, "keyform") {
		case 0:
			name = escapeKey(flipCase(fk.name))
		case 1:
			name = escapeKey(strings.ToUpper(fk.name))
		case 2:
			name = escapeKey(strings.ToLower(fk.name))
		case 3:
			// escaped spelling of the first character
			if len(fk.name) > 0 && fk.name[0] < 0x80 {
				name = u4(strconv.FormatInt(int64(fk.name[0])+0x10000, 16)[1:]) + escapeKey(fk.name[1:])
			}
		case 4:
			// Unicode case folds of k and s
			name = escapeKey(strings.NewReplacer("k", "K", "K", "K", "s", "ſ", "S", "ſ").Replace(fk.name))
		}
		g.b.WriteString(`"` + name + `"`)
		g.ws()
		g.b.WriteByte(':')
		g.ws()
		if fk.quoted && rapid.IntRange(0, 5).Draw(g.t, "quotedform") != 0 {
			g.quotedPayload(fk.ty, depth-1)
		} else {
			g.value(fk.ty, depth-1)
		}
		g.ws()
	}
	g.b.WriteByte('}')
}

// quotedPayload writes the value of a `,string` field: a JSON string holding the literal.
func (g *docFor) quotedPayload(ty reflect.Type, depth int) {
	sub := &docFor{t: g.t, o: DocForOpt{Str: g.o.Str, Perturb: 1 << 20}}
	inner := ty
	if inner.Kind() == reflect.Ptr {
		inner = inner.Elem()
	}
	sub.value(inner, depth)
	payload := sub.b.String()
	switch rapid.IntRange(0, 9).Draw(g.t, "qform") {
	case 0:
		payload = " " + payload
	case 1:
		payload = payload + " "
	case 2:
		payload = "null"
	case 3:
		payload = ""
	case 4:
		payload = `"` + payload + `"`
	}
	// quote it as a JSON string
	b, _ := json.Marshal(payload)
	// encoding/json escapes <>& here; spelling is irrelevant to the decoders
	g.b.Write(b)
}
