// Package stat collects per-shard coverage statistics and writes them where
// the driver can merge them.
package stat

import (
	"encoding/binary"
	"encoding/json"
	"hash/fnv"
	"os"
	"path/filepath"
	"sort"
	"sync"
)

// Result is what evaluating one case yields.
type Result struct {
	Err        error    // unlisted violation
	NonTrivial bool     // by the property's stated rule
	Classes    []string // generator/outcome classes for the distribution report
	Known      []string // ids of listed known findings this case ran into (case excluded from the verdict)
	Programs   int      // distinct Go types first compiled by this case
	Sub        int      // number of oracle evaluations inside this case (default 1)
	// Inconclusive is set when the case could not be judged for an infrastructure reason (a worker did not
	// answer within its deadline on a loaded machine ...). It never counts as a violation; the run ends with exit 2.
	Inconclusive string
}

// Shard is the on-disk format of one shard's statistics.
type Shard struct {
	Property     string            `json:"property"`
	Evaluations  int64             `json:"evaluations"`
	Cases        int64             `json:"cases"`
	NonTrivial   int64             `json:"nontrivial_total"`
	Classes      map[string]int64  `json:"classes"`
	Known        map[string]int64  `json:"known"`
	KnownSample  map[string]string `json:"known_sample"`
	Programs     int64             `json:"programs"`
	Samples      []json.RawMessage `json:"samples"`
	Failed       bool              `json:"failed"`
	Inconclusive []string          `json:"inconclusive"`
}

// Recorder accumulates statistics for one property in one process.
type Recorder struct {
	mu     sync.Mutex
	s      Shard
	hashes map[uint64]struct{}
	dir    string
	nsamp  int
}

// OutDir is the directory the shard writes to (env VERIF_OUT, default ./out-local).
func OutDir() string {
	d := os.Getenv("VERIF_OUT")
	if d == "" {
		d = "out-local"
	}
	os.MkdirAll(d, 0o755)
	return d
}

func New(prop string) *Recorder {
	return &Recorder{
		s:      Shard{Property: prop, Classes: map[string]int64{}, Known: map[string]int64{}, KnownSample: map[string]string{}},
		hashes: map[uint64]struct{}{},
		dir:    OutDir(),
	}
}

// Record adds one evaluated case. canon is the canonical serialisation of the case.
func (r *Recorder) Record(canon []byte, res Result) {
	r.mu.Lock()
	defer r.mu.Unlock()
	r.s.Cases++
	if res.Sub > 0 {
		r.s.Evaluations += int64(res.Sub)
	} else {
		r.s.Evaluations++
	}
	r.s.Programs += int64(res.Programs)
	if res.Inconclusive != "" && len(r.s.Inconclusive) < 20 {
		r.s.Inconclusive = append(r.s.Inconclusive, res.Inconclusive)
	}
	for _, c := range res.Classes {
		r.s.Classes[c]++
	}
	for _, k := range res.Known {
		r.s.Known[k]++
		if _, ok := r.s.KnownSample[k]; !ok && len(canon) < 4096 {
			r.s.KnownSample[k] = string(canon)
		}
	}
	if res.NonTrivial {
		r.s.NonTrivial++
		h := fnv.New64a()
		h.Write(canon)
		r.hashes[h.Sum64()] = struct{}{}
		// sample: first 3, then sparse
		n := r.s.NonTrivial
		if (n <= 3 || (n&(n-1)) == 0) && len(r.s.Samples) < 12 && len(canon) < 6000 {
			r.s.Samples = append(r.s.Samples, json.RawMessage(append([]byte(nil), canon...)))
		}
	}
}

// Flush writes stats.json and hashes.bin to the shard directory.
func (r *Recorder) Flush(failed bool) {
	r.mu.Lock()
	defer r.mu.Unlock()
	r.s.Failed = failed
	b, _ := json.Marshal(&r.s)
	os.WriteFile(filepath.Join(r.dir, "stats.json"), b, 0o644)
	hs := make([]uint64, 0, len(r.hashes))
	for h := range r.hashes {
		hs = append(hs, h)
	}
	sort.Slice(hs, func(i, j int) bool { return hs[i] < hs[j] })
	buf := make([]byte, 8*len(hs))
	for i, h := range hs {
		binary.LittleEndian.PutUint64(buf[i*8:], h)
	}
	os.WriteFile(filepath.Join(r.dir, "hashes.bin"), buf, 0o644)
}
