package props

import "testing"

func TestC20(t *testing.T) { runProp(t, "C20", drawC20) }

func TestC19(t *testing.T) { runProp(t, "C19", drawC19) }
