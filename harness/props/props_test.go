package props

import (
	"os"
	"testing"
)

func TestC20(t *testing.T) { runProp(t, "C20", drawC20) }

func TestC19(t *testing.T) { runProp(t, "C19", drawC19) }

func TestC03(t *testing.T) { runProp(t, "C03", drawC03) }

func TestC04(t *testing.T) { runProp(t, "C04", drawC04) }

func TestC12(t *testing.T) { runProp(t, "C12", drawC12) }

func TestC01(t *testing.T) { runProp(t, "C01", drawC01) }

func TestC11(t *testing.T) { runProp(t, "C11", drawC11) }

func TestC02(t *testing.T) { runProp(t, "C02", drawC02) }

func TestC14(t *testing.T) { runProp(t, "C14", drawC14) }

func TestC15(t *testing.T) { runProp(t, "C15", drawC15) }

func TestC17(t *testing.T) { runProp(t, "C17", drawC17) }

func TestC18(t *testing.T) { runProp(t, "C18", drawC18) }

func TestC13(t *testing.T) { runProp(t, "C13", drawC13) }

// TestWorker turns the test binary into a transcript server (see worker.go).
func TestWorker(t *testing.T) {
	if os.Getenv("VERIF_WORKER") != "1" {
		t.Skip("not a worker")
	}
	workerMain()
}

func TestC05(t *testing.T) { runProp(t, "C05", drawC05) }

func TestC06(t *testing.T) { runProp(t, "C06", drawC06) }

func TestC07(t *testing.T) { runProp(t, "C07", drawC07) }

func TestC08(t *testing.T) { runProp(t, "C08", drawC08) }
func TestC16(t *testing.T) { runProp(t, "C16", drawC16) }

func TestC09(t *testing.T) { runProp(t, "C09", drawC09) }

func TestC10(t *testing.T) { runProp(t, "C10", drawC10) }

func TestC19Sweep(t *testing.T) { runC19Sweep(t) }
