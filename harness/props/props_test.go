package props

import "testing"

func TestC20(t *testing.T) { runProp(t, "C20", drawC20) }
