package props

import (
	"fmt"
	"os"
	"path/filepath"
	"sort"
	"strings"
	"testing"
)

// TestReplay re-runs case files without rapid. VERIF_REPLAY is a file, or a
// directory whose *.case.json files are all run (optionally filtered by
// VERIF_PROP). Output lines: "REPLAY <path> ok|known:<ids>|VIOLATION <err>".
func TestReplay(t *testing.T) {
	target := os.Getenv("VERIF_REPLAY")
	if target == "" {
		t.Skip("VERIF_REPLAY not set")
	}
	var files []string
	if st, err := os.Stat(target); err == nil && st.IsDir() {
		m, _ := filepath.Glob(filepath.Join(target, "*.case.json"))
		sort.Strings(m)
		files = m
	} else {
		files = []string{target}
	}
	want := os.Getenv("VERIF_PROP")
	for _, f := range files {
		prop, c, err := LoadCase(f)
		if want != "" && prop != want {
			continue
		}
		if err != nil {
			fmt.Printf("REPLAY %s LOADERROR %v\n", f, err)
			t.Errorf("load %s: %v", f, err)
			continue
		}
		res := safeRun(c)
		switch {
		case res.Err != nil:
			fmt.Printf("REPLAY %s VIOLATION %s\n", f, strings.ReplaceAll(res.Err.Error(), "\n", " | "))
			t.Errorf("%s: %v", f, res.Err)
		case len(res.Known) > 0:
			fmt.Printf("REPLAY %s known:%s\n", f, strings.Join(res.Known, ","))
		default:
			fmt.Printf("REPLAY %s ok\n", f)
		}
	}
}
