package props

import (
	"encoding/json"
	"fmt"
	"math"
	"reflect"
	"strconv"
	"strings"

	"github.com/bytedance/sonic"
	"github.com/bytedance/sonic/ast"
	"github.com/bytedance/sonic/verifhook"
	"pgregory.net/rapid"
	"verif/harness/gen"
	"verif/harness/stat"
)

// C19Case: one number literal parsed into every numeric destination by both
// decoders, plus numeric values printed by the encoder.
type C19Case struct {
	Lit string `json:"lit"`
	F64 uint64 `json:"f64bits"`
	F32 uint32 `json:"f32bits"`
	I64 int64  `json:"i64"`
	U64 uint64 `json:"u64"`

	Sweep string `json:"sweep,omitempty"` // set on cases written by the exhaustive sweep (c19_sweep.go): f32 | i32 | u32
	Bits  uint32 `json:"bits,omitempty"`  // the member of the sweep domain
}

func init() { register("C19", func() Case { return &C19Case{} }) }

func drawC19(t *rapid.T) Case {
	c := &C19Case{}
	c.Lit = gen.NumberLit(t, gen.NumOpt{Huge: true})
	// values to print: mix of raw bit patterns and values derived from the literal
	switch rapid.IntRange(0, 3).Draw(t, "fsrc") {
	case 0:
		c.F64 = rapid.Uint64().Draw(t, "pf64")
	case 1:
		f, _ := strconv.ParseFloat(c.Lit, 64)
		c.F64 = math.Float64bits(f)
	case 2:
		// integers as floats, around the exponent-notation thresholds
		c.F64 = math.Float64bits(float64(rapid.Int64().Draw(t, "fint")))
	default:
		c.F64 = math.Float64bits(math.Ldexp(float64(rapid.IntRange(1, 1<<20).Draw(t, "m")), rapid.IntRange(-1080, 1000).Draw(t, "e")))
	}
	if rapid.Bool().Draw(t, "f32src") {
		c.F32 = rapid.Uint32().Draw(t, "pf32")
	} else {
		f, _ := strconv.ParseFloat(c.Lit, 32)
		c.F32 = math.Float32bits(float32(f))
	}
	c.I64 = rapid.Int64().Draw(t, "pi64")
	c.U64 = rapid.Uint64().Draw(t, "pu64")
	if rapid.Bool().Draw(t, "smallints") {
		sh := uint(rapid.IntRange(0, 63).Draw(t, "shift"))
		c.I64 >>= sh
		c.U64 >>= sh
	}
	return c
}

type c19Str struct {
	I  int64   `json:"i,string"`
	U  uint64  `json:"u,string"`
	F  float64 `json:"f,string"`
	F3 float32 `json:"g,string"`
	I8 int8    `json:"h,string"`
}

type c19Fields struct {
	F64 float64
	F32 float32
	I   int
	I8  int8
	I16 int16
	I32 int32
	I64 int64
	U   uint
	U8  uint8
	U16 uint16
	U32 uint32
	U64 uint64
	UP  uintptr
	N   json.Number
	A   interface{}
	PF  *float64
	PI  *int32
}

var c19Dest = []reflect.Type{
	reflect.TypeOf(float64(0)), reflect.TypeOf(float32(0)),
	reflect.TypeOf(int(0)), reflect.TypeOf(int8(0)), reflect.TypeOf(int16(0)), reflect.TypeOf(int32(0)), reflect.TypeOf(int64(0)),
	reflect.TypeOf(uint(0)), reflect.TypeOf(uint8(0)), reflect.TypeOf(uint16(0)), reflect.TypeOf(uint32(0)), reflect.TypeOf(uint64(0)), reflect.TypeOf(uintptr(0)),
	reflect.TypeOf(json.Number("")), reflect.TypeOf((*interface{})(nil)).Elem(),
	reflect.TypeOf([]float32(nil)), reflect.TypeOf([]int16(nil)), reflect.TypeOf([2]uint32{}), reflect.TypeOf([]interface{}(nil)),
	reflect.TypeOf(map[string]float32(nil)), reflect.TypeOf(map[string]interface{}(nil)),
	reflect.TypeOf(NamedF32(0)), reflect.TypeOf(NamedI8(0)), reflect.TypeOf(NamedU16(0)),
}

// slices and maps of every numeric element kind (the alternative decoder has a specialised routine per kind)
var c19SliceDest = []reflect.Type{
	reflect.TypeOf([]int(nil)), reflect.TypeOf([]int8(nil)), reflect.TypeOf([]int32(nil)), reflect.TypeOf([]int64(nil)),
	reflect.TypeOf([]uint(nil)), reflect.TypeOf([]uint16(nil)), reflect.TypeOf([]uint32(nil)), reflect.TypeOf([]uint64(nil)), reflect.TypeOf([]uintptr(nil)),
	reflect.TypeOf([]float64(nil)), reflect.TypeOf([]json.Number(nil)), reflect.TypeOf([]*uint32(nil)), reflect.TypeOf([][]uint32(nil)), reflect.TypeOf([3]int64{}),
}

var c19MapDest = []reflect.Type{
	reflect.TypeOf(map[string]interface{}(nil)), reflect.TypeOf(map[string]json.RawMessage(nil)),
}

type NamedF32 float32
type NamedI8 int8
type NamedU16 uint16

var c19KeyDest = []reflect.Type{
	reflect.TypeOf(map[int]int(nil)), reflect.TypeOf(map[int8]int(nil)), reflect.TypeOf(map[int64]int(nil)),
	reflect.TypeOf(map[uint]int(nil)), reflect.TypeOf(map[uint8]int(nil)), reflect.TypeOf(map[uint64]int(nil)), reflect.TypeOf(map[uintptr]int(nil)),
	reflect.TypeOf(map[int32]int(nil)), reflect.TypeOf(map[uint16]int(nil)),
}

type decoderSel struct {
	name    string
	opt, fm bool
}

var c19Decoders = []decoderSel{{"jit", false, false}, {"optdec", true, false}}

// isFloat32Dest reports whether a mismatch path lies in a float32-kinded destination.
func typeHasFloat32(t reflect.Type) bool {
	switch t.Kind() {
	case reflect.Float32:
		return true
	case reflect.Slice, reflect.Array, reflect.Map, reflect.Ptr:
		return typeHasFloat32(t.Elem())
	case reflect.Struct:
		for i := 0; i < t.NumField(); i++ {
			if typeHasFloat32(t.Field(i).Type) {
				return true
			}
		}
	}
	return false
}

func (c *C19Case) Run() (res stat.Result) {
	if c.Sweep != "" {
		if msg := (&sweepState{}).sweepOne(c.Sweep, c.Bits); msg != "" {
			res.Err = fmt.Errorf("%s", msg)
		}
		res.NonTrivial = true
		return
	}
	defer verifhook.SetDecoder(false, false)
	fail := func(f string, a ...interface{}) stat.Result {
		res.Err = fmt.Errorf(f, a...)
		return res
	}
	lit := c.Lit
	f64, f64err := strconv.ParseFloat(lit, 64)
	f32ref, _ := strconv.ParseFloat(lit, 32)
	doubleRounded := f64err == nil && float32(f64) != float32(f32ref)

	docs := []struct {
		doc   string
		types []reflect.Type
	}{
		{lit, c19Dest[:15]},
		{" " + lit + "\n", c19Dest[:15]},
		{"[" + lit + "," + lit + "]", c19Dest[15:19]},
		{`{"a":` + lit + `, "b" : ` + lit + ` }`, c19Dest[19:21]},
		{"[" + lit + " , " + lit + "]", c19SliceDest},
		{`{"k":` + lit + `,"l":[` + lit + `]}`, c19MapDest},
		{lit, c19Dest[21:]},
		{`{"` + lit + `":1}`, c19KeyDest},
		{`{"i":"` + lit + `"}`, []reflect.Type{reflect.TypeOf(c19Str{})}},
		{`{"u":"` + lit + `"}`, []reflect.Type{reflect.TypeOf(c19Str{})}},
		{`{"f":"` + lit + `"}`, []reflect.Type{reflect.TypeOf(c19Str{})}},
		{`{"g":"` + lit + `"}`, []reflect.Type{reflect.TypeOf(c19Str{})}},
		{`{"h":"` + lit + `"}`, []reflect.Type{reflect.TypeOf(c19Str{})}},
	}
	// a struct holding all widths
	var sb strings.Builder
	sb.WriteByte('{')
	ft := reflect.TypeOf(c19Fields{})
	for i := 0; i < ft.NumField(); i++ {
		if i > 0 {
			sb.WriteByte(',')
		}
		fmt.Fprintf(&sb, "%q:%s", ft.Field(i).Name, lit)
	}
	sb.WriteByte('}')
	docs = append(docs, struct {
		doc   string
		types []reflect.Type
	}{sb.String(), []reflect.Type{ft}})

	cfgs := []struct {
		name string
		api  sonic.API
		num  int // 0 none, 1 UseNumber, 2 UseInt64
	}{
		{"std", sonic.ConfigStd, 0},
		{"default", sonic.ConfigDefault, 0},
		{"std+UseNumber", sonic.Config{EscapeHTML: true, SortMapKeys: true, CompactMarshaler: true, CopyString: true, ValidateString: true, UseNumber: true}.Froze(), 1},
		{"std+UseInt64", sonic.Config{EscapeHTML: true, SortMapKeys: true, CompactMarshaler: true, CopyString: true, ValidateString: true, UseInt64: true}.Froze(), 2},
	}

	for _, dsel := range c19Decoders {
		verifhook.SetDecoder(dsel.opt, dsel.fm)
		for _, d := range docs {
			for _, ty := range d.types {
				for _, cfg := range cfgs {
					if cfg.num != 0 && !(ty.Kind() == reflect.Interface || ty == ft || ty.Kind() == reflect.Slice && ty.Elem().Kind() == reflect.Interface || ty.Kind() == reflect.Map && ty.Elem().Kind() == reflect.Interface) {
						continue
					}
					res.Sub++
					jv, sv := reflect.New(ty), reflect.New(ty)
					var je error
					if cfg.num == 1 {
						dec := json.NewDecoder(strings.NewReader(d.doc))
						dec.UseNumber()
						je = dec.Decode(jv.Interface())
					} else {
						je = json.Unmarshal([]byte(d.doc), jv.Interface())
					}
					se := cfg.api.UnmarshalFromString(d.doc, sv.Interface())
					if cfg.num == 2 && je == nil {
						useInt64Oracle(jv.Elem(), d.doc)
					}
					what := fmt.Sprintf("%s/%s Unmarshal(%s) into %s", dsel.name, cfg.name, clipS(d.doc), ty)
					if (je == nil) != (se == nil) {
						if doubleRounded && je == nil && typeHasFloat32(ty) && math.IsInf(float64(float32(f64)), 0) && knownListed("C19-float32-double-rounding") {
							// same root cause seen as an error: the double nearest to the literal narrows to Inf
							res.Known = append(res.Known, "C19-float32-double-rounding")
							continue
						}
						if id := c19Classify(dsel.name, ty, d.doc, lit, je, se, ""); id != "" {
							res.Known = append(res.Known, id)
							continue
						}
						return fail("%s: encoding/json err=%v, sonic err=%v", what, je, se)
					}
					if je != nil {
						continue
					}
					if diff := deepEq(jv.Elem(), sv.Elem(), "", 0); diff != "" {
						if doubleRounded && typeHasFloat32(ty) && knownListed("C19-float32-double-rounding") && c19OnlyFloat32Differs(jv.Elem(), sv.Elem(), float32(f64)) {
							res.Known = append(res.Known, "C19-float32-double-rounding")
							continue
						}
						if lit == "-0" && knownListed("C19-minus-zero-integer-literal") && c19LeafDiffs(jv.Elem(), sv.Elem(), func(x, y reflect.Value) bool {
							return isFloatKind(x) && x.Float() == 0 && y.Float() == 0 && math.Signbit(x.Float()) && !math.Signbit(y.Float())
						}) {
							res.Known = append(res.Known, "C19-minus-zero-integer-literal")
							continue
						}
						if id := c19Classify(dsel.name, ty, d.doc, lit, je, se, diff); id != "" {
							res.Known = append(res.Known, id)
							continue
						}
						return fail("%s: encoding/json and sonic differ at %s", what, diff)
					}
					// independent of encoding/json: float64 is ParseFloat exactly
					if ty.Kind() == reflect.Float64 && f64err == nil {
						if math.Float64bits(sv.Elem().Float()) != math.Float64bits(f64) {
							return fail("%s: got bits %#x, strconv.ParseFloat gives %#x", what, math.Float64bits(sv.Elem().Float()), math.Float64bits(f64))
						}
					}
					if ty == reflect.TypeOf(json.Number("")) && sv.Elem().String() != lit {
						return fail("%s: json.Number text %q differs from literal", what, sv.Elem().String())
					}
				}
			}
		}
	}
	verifhook.SetDecoder(false, false)

	// ---- AST accessors
	res.Sub += 4
	n := ast.NewRaw(lit)
	if err := n.Check(); err != nil {
		return fail("ast.NewRaw(%q).Check: %v", lit, err)
	}
	if num, err := n.Number(); err != nil || string(num) != lit {
		return fail("ast Number(%q) = %q, %v", lit, num, err)
	}
	af, aerr := n.Float64()
	if f64err == nil {
		if aerr != nil || math.Float64bits(af) != math.Float64bits(f64) {
			return fail("ast Float64(%q) = %v (%#x), %v; ParseFloat gives %v", lit, af, math.Float64bits(af), aerr, f64)
		}
	} else if aerr == nil {
		return fail("ast Float64(%q) = %v without error; ParseFloat fails with %v", lit, af, f64err)
	}
	wi, wierr := strconv.ParseInt(lit, 10, 64)
	si, sierr := n.StrictInt64()
	if (wierr == nil) != (sierr == nil) || (wierr == nil && wi != si) {
		return fail("ast StrictInt64(%q) = %d, %v; ParseInt gives %d, %v", lit, si, sierr, wi, wierr)
	}
	iv, ierr := n.Interface()
	if f64err == nil {
		if fv, ok := iv.(float64); ierr != nil || !ok || math.Float64bits(fv) != math.Float64bits(f64) {
			return fail("ast Interface(%q) = %v, %v; want float64 %v", lit, iv, ierr, f64)
		}
	}

	// ---- printing
	pf := math.Float64frombits(c.F64)
	pf32 := math.Float32frombits(c.F32)
	vals := []interface{}{c.I64, c.U64, int8(c.I64), int16(c.I64), int32(c.I64), int(c.I64), uint8(c.U64), uint16(c.U64), uint32(c.U64), uint(c.U64), uintptr(c.U64),
		[]int64{c.I64, -c.I64}, map[int64]uint64{c.I64: c.U64}, map[uint32]int8{uint32(c.U64): int8(c.I64)},
		c19Str{I: c.I64, U: c.U64, I8: int8(c.I64)}}
	if !math.IsNaN(pf) && !math.IsInf(pf, 0) {
		vals = append(vals, pf, []float64{pf, -pf}, map[string]float64{"k": pf}, c19Str{F: pf}, &pf, interface{}(pf))
	}
	if pf32 == pf32 && !math.IsInf(float64(pf32), 0) {
		vals = append(vals, pf32, []float32{pf32}, c19Str{F3: pf32}, NamedF32(pf32), map[string]interface{}{"x": pf32})
	}
	for _, cfg := range cfgs[:2] {
		for _, v := range vals {
			res.Sub++
			jb, je := json.Marshal(v)
			sb, se := cfg.api.Marshal(v)
			if je != nil || se != nil {
				return fail("%s Marshal(%#v): encoding/json err=%v sonic err=%v", cfg.name, v, je, se)
			}
			if string(jb) != string(sb) {
				return fail("%s Marshal(%T %v): encoding/json %s, sonic %s", cfg.name, v, v, jb, sb)
			}
		}
	}
	if !math.IsNaN(pf) && !math.IsInf(pf, 0) {
		res.Sub++
		sb, _ := sonic.Marshal(pf)
		back, err := strconv.ParseFloat(string(sb), 64)
		if err != nil || math.Float64bits(back) != c.F64 {
			return fail("Marshal(float64 %#x) = %s does not parse back (%v, %v)", c.F64, sb, back, err)
		}
		sh := strconv.FormatFloat(pf, 'g', -1, 64)
		if digits(string(sb)) != digits(sh) {
			return fail("Marshal(float64 %#x) = %s is not the shortest digit string (%s)", c.F64, sb, sh)
		}
	}
	if pf32 == pf32 && !math.IsInf(float64(pf32), 0) {
		res.Sub++
		sb, _ := sonic.Marshal(pf32)
		back, err := strconv.ParseFloat(string(sb), 32)
		if err != nil || math.Float32bits(float32(back)) != c.F32 {
			return fail("Marshal(float32 %#x) = %s does not parse back (%v, %v)", c.F32, sb, back, err)
		}
	}

	// ---- non-triviality
	sig := digits(lit)
	res.NonTrivial = len(sig) > 15 || strings.ContainsAny(lit, "eE") || doubleRounded
	if f64err != nil {
		res.Classes = append(res.Classes, "f64-overflow")
	}
	if len(sig) > 19 {
		res.Classes = append(res.Classes, "digits>19")
	}
	if len(sig) > 100 {
		res.Classes = append(res.Classes, "digits>100")
	}
	if doubleRounded {
		res.Classes = append(res.Classes, "f32-double-rounding-candidate")
	}
	if wierr == nil {
		res.Classes = append(res.Classes, "int64-literal")
	} else if !strings.ContainsAny(lit, ".eE") {
		res.Classes = append(res.Classes, "int-literal-out-of-int64")
	}
	if f64 == 0 && f64err == nil {
		res.Classes = append(res.Classes, "zero")
		if math.Signbit(f64) {
			res.Classes = append(res.Classes, "negative-zero")
		}
	}
	if f64err == nil && f64 != 0 && math.Abs(f64) < 2.2250738585072014e-308 {
		res.Classes = append(res.Classes, "subnormal")
	}
	return res
}

// digits returns the significant digits of a decimal literal (no sign, point,
// exponent, leading/trailing zeros).
func digits(s string) string {
	if i := strings.IndexAny(s, "eE"); i >= 0 {
		s = s[:i]
	}
	s = strings.TrimPrefix(s, "-")
	s = strings.Replace(s, ".", "", 1)
	s = strings.TrimLeft(s, "0")
	return strings.TrimRight(s, "0")
}

// useInt64Oracle rewrites encoding/json's result into what UseInt64 documents:
// a number in an interface{} position whose literal is an integer in int64
// range becomes int64. Only the shapes used by C19 are handled (the literal is
// the same at every position, so the float64 value identifies it).
func useInt64Oracle(v reflect.Value, doc string) {
	var walk func(v reflect.Value)
	conv := func(e reflect.Value) (reflect.Value, bool) {
		if e.Kind() == reflect.Float64 && e.Type() == reflect.TypeOf(float64(0)) {
			return e, true
		}
		return e, false
	}
	_ = conv
	walk = func(v reflect.Value) {
		switch v.Kind() {
		case reflect.Interface:
			if v.IsNil() {
				return
			}
			e := v.Elem()
			switch x := e.Interface().(type) {
			case float64:
				if iv, ok := c19LitInt64(doc); ok && float64(iv) == x {
					v.Set(reflect.ValueOf(iv))
				}
			case []interface{}:
				for i := range x {
					walk(reflect.ValueOf(&x[i]).Elem())
				}
			case map[string]interface{}:
				for k, e := range x {
					p := e
					pv := reflect.ValueOf(&p).Elem()
					walk(pv)
					x[k] = p
				}
			}
		case reflect.Slice, reflect.Array:
			for i := 0; i < v.Len(); i++ {
				walk(v.Index(i))
			}
		case reflect.Map:
			if v.Type().Elem().Kind() == reflect.Interface {
				for _, k := range v.MapKeys() {
					e := reflect.New(v.Type().Elem()).Elem()
					e.Set(v.MapIndex(k))
					walk(e)
					v.SetMapIndex(k, e)
				}
			}
		case reflect.Struct:
			for i := 0; i < v.NumField(); i++ {
				walk(v.Field(i))
			}
		case reflect.Ptr:
			if !v.IsNil() {
				walk(v.Elem())
			}
		}
	}
	walk(v)
}

// c19LitInt64 extracts the (single, repeated) literal from a C19 document and
// parses it as int64.
func c19LitInt64(doc string) (int64, bool) {
	// the literal is the first maximal run of number characters outside quotes
	in := false
	for i := 0; i < len(doc); i++ {
		ch := doc[i]
		if ch == '"' {
			in = !in
			continue
		}
		if in {
			continue
		}
		if ch == '-' || ch >= '0' && ch <= '9' {
			j := i
			for j < len(doc) && strings.IndexByte("+-0123456789.eE", doc[j]) >= 0 {
				j++
			}
			v, err := strconv.ParseInt(doc[i:j], 10, 64)
			return v, err == nil
		}
	}
	return 0, false
}

// c19OnlyFloat32Differs: every difference between a and b is a float32 whose
// sonic value equals the double-rounded conversion.
func c19OnlyFloat32Differs(a, b reflect.Value, dr float32) bool {
	return c19LeafDiffs(a, b, func(x, y reflect.Value) bool {
		return x.Kind() == reflect.Float32 && float32(y.Float()) == dr
	})
}

// c19LeafDiffs walks two values of the same type and reports whether every
// leaf that differs satisfies excuse(left, right).
func c19LeafDiffs(a, b reflect.Value, excuse func(x, y reflect.Value) bool) bool {
	if a.Type() != b.Type() {
		return false
	}
	switch a.Kind() {
	case reflect.Float32, reflect.Float64:
		return math.Float64bits(a.Float()) == math.Float64bits(b.Float()) || excuse(a, b)
	case reflect.String:
		return a.String() == b.String() || excuse(a, b)
	case reflect.Slice, reflect.Array:
		if a.Kind() == reflect.Slice && a.Type().Elem().Kind() == reflect.Uint8 {
			// byte slices are leaves
			return (a.IsNil() == b.IsNil() && string(a.Bytes()) == string(b.Bytes())) || excuse(a, b)
		}
		if a.Len() != b.Len() {
			return false
		}
		for i := 0; i < a.Len(); i++ {
			if !c19LeafDiffs(a.Index(i), b.Index(i), excuse) {
				return false
			}
		}
		return true
	case reflect.Map:
		if a.Len() != b.Len() {
			return false
		}
		for _, k := range a.MapKeys() {
			bv := b.MapIndex(k)
			if !bv.IsValid() || !c19LeafDiffs(a.MapIndex(k), bv, excuse) {
				return false
			}
		}
		return true
	case reflect.Struct:
		for i := 0; i < a.NumField(); i++ {
			if !c19LeafDiffs(a.Field(i), b.Field(i), excuse) {
				return false
			}
		}
		return true
	case reflect.Ptr, reflect.Interface:
		if a.IsNil() || b.IsNil() {
			return a.IsNil() == b.IsNil() || excuse(a, b)
		}
		return c19LeafDiffs(a.Elem(), b.Elem(), excuse)
	default:
		return deepEq(a, b, "", 0) == ""
	}
}

// c19Classify maps a mismatch to a listed known finding, or "".
func c19Classify(dec string, ty reflect.Type, doc, lit string, je, se error, diff string) string {
	if dec == "optdec" && je == nil && se != nil && strings.Contains(se.Error(), "float infinity") && knownListed("C11-optdec-float-overflow-anywhere") {
		if _, err := strconv.ParseFloat(lit, 64); err != nil {
			return "C11-optdec-float-overflow-anywhere"
		}
	}
	return ""
}

func isFloatKind(v reflect.Value) bool {
	return v.Kind() == reflect.Float32 || v.Kind() == reflect.Float64
}

// c19LeafDiffsAll is c19LeafDiffs with byte slices walked element-wise and
// integer leaves offered to excuse.
func c19LeafDiffsAll(a, b reflect.Value, excuse func(x, y reflect.Value) bool) bool {
	if a.Type() != b.Type() {
		return false
	}
	switch a.Kind() {
	case reflect.Slice, reflect.Array:
		if a.Len() != b.Len() {
			return false
		}
		for i := 0; i < a.Len(); i++ {
			if !c19LeafDiffsAll(a.Index(i), b.Index(i), excuse) {
				return false
			}
		}
		return true
	case reflect.Uint8, reflect.Uint16, reflect.Uint32, reflect.Uint64, reflect.Uint, reflect.Uintptr:
		return a.Uint() == b.Uint() || excuse(a, b)
	case reflect.Int8, reflect.Int16, reflect.Int32, reflect.Int64, reflect.Int:
		return a.Int() == b.Int() || excuse(a, b)
	case reflect.Struct:
		for i := 0; i < a.NumField(); i++ {
			if !c19LeafDiffsAll(a.Field(i), b.Field(i), excuse) {
				return false
			}
		}
		return true
	case reflect.Ptr, reflect.Interface:
		if a.IsNil() || b.IsNil() {
			return a.IsNil() == b.IsNil()
		}
		return c19LeafDiffsAll(a.Elem(), b.Elem(), excuse)
	case reflect.Map:
		if a.Len() != b.Len() {
			return false
		}
		for _, k := range a.MapKeys() {
			bv := b.MapIndex(k)
			if !bv.IsValid() || !c19LeafDiffsAll(a.MapIndex(k), bv, excuse) {
				return false
			}
		}
		return true
	default:
		return deepEq(a, b, "", 0) == ""
	}
}
