package props

import (
	"fmt"
	"math"
	"reflect"
)

// deepEq is reflect.DeepEqual with floats compared by bit pattern (so that
// -0 != +0 and NaN == NaN with the same payload) and with a description of the
// first difference. nil and empty slices/maps are different, as in DeepEqual.
func deepEq(a, b reflect.Value, path string, depth int) string {
	if depth > 200 {
		return ""
	}
	if !a.IsValid() || !b.IsValid() {
		if a.IsValid() != b.IsValid() {
			return fmt.Sprintf("%s: one side invalid", path)
		}
		return ""
	}
	if a.Type() != b.Type() {
		return fmt.Sprintf("%s: type %s vs %s", path, a.Type(), b.Type())
	}
	switch a.Kind() {
	case reflect.Float32, reflect.Float64:
		if math.Float64bits(a.Float()) != math.Float64bits(b.Float()) {
			return fmt.Sprintf("%s: %v (%#x) vs %v (%#x)", path, a.Float(), math.Float64bits(a.Float()), b.Float(), math.Float64bits(b.Float()))
		}
	case reflect.Bool:
		if a.Bool() != b.Bool() {
			return fmt.Sprintf("%s: %v vs %v", path, a.Bool(), b.Bool())
		}
	case reflect.Int, reflect.Int8, reflect.Int16, reflect.Int32, reflect.Int64:
		if a.Int() != b.Int() {
			return fmt.Sprintf("%s: %d vs %d", path, a.Int(), b.Int())
		}
	case reflect.Uint, reflect.Uint8, reflect.Uint16, reflect.Uint32, reflect.Uint64, reflect.Uintptr:
		if a.Uint() != b.Uint() {
			return fmt.Sprintf("%s: %d vs %d", path, a.Uint(), b.Uint())
		}
	case reflect.String:
		if a.String() != b.String() {
			return fmt.Sprintf("%s: %q vs %q", path, clipS(a.String()), clipS(b.String()))
		}
	case reflect.Ptr:
		if a.IsNil() != b.IsNil() {
			return fmt.Sprintf("%s: nil-ness %v vs %v", path, a.IsNil(), b.IsNil())
		}
		if !a.IsNil() {
			return deepEq(a.Elem(), b.Elem(), path+".*", depth+1)
		}
	case reflect.Interface:
		if a.IsNil() != b.IsNil() {
			return fmt.Sprintf("%s: interface nil-ness %v vs %v (%v vs %v)", path, a.IsNil(), b.IsNil(), a, b)
		}
		if !a.IsNil() {
			return deepEq(a.Elem(), b.Elem(), path, depth+1)
		}
	case reflect.Slice:
		if a.IsNil() != b.IsNil() {
			return fmt.Sprintf("%s: slice nil-ness %v vs %v", path, a.IsNil(), b.IsNil())
		}
		fallthrough
	case reflect.Array:
		if a.Len() != b.Len() {
			return fmt.Sprintf("%s: len %d vs %d", path, a.Len(), b.Len())
		}
		for i := 0; i < a.Len(); i++ {
			if d := deepEq(a.Index(i), b.Index(i), fmt.Sprintf("%s[%d]", path, i), depth+1); d != "" {
				return d
			}
		}
	case reflect.Map:
		if a.IsNil() != b.IsNil() {
			return fmt.Sprintf("%s: map nil-ness %v vs %v", path, a.IsNil(), b.IsNil())
		}
		if a.Len() != b.Len() {
			return fmt.Sprintf("%s: map len %d vs %d (%v vs %v)", path, a.Len(), b.Len(), a, b)
		}
		it := a.MapRange()
		for it.Next() {
			bv := b.MapIndex(it.Key())
			if !bv.IsValid() {
				return fmt.Sprintf("%s: key %v missing on the right", path, it.Key())
			}
			if d := deepEq(it.Value(), bv, fmt.Sprintf("%s[%v]", path, it.Key()), depth+1); d != "" {
				return d
			}
		}
	case reflect.Struct:
		for i := 0; i < a.NumField(); i++ {
			if d := deepEq(a.Field(i), b.Field(i), path+"."+a.Type().Field(i).Name, depth+1); d != "" {
				return d
			}
		}
	default:
		// chan, func, unsafe pointer, complex: compare by DeepEqual
		if a.CanInterface() && b.CanInterface() && !reflect.DeepEqual(a.Interface(), b.Interface()) {
			return fmt.Sprintf("%s: differ", path)
		}
	}
	return ""
}

func clipS(s string) string {
	if len(s) > 80 {
		return s[:80] + "…"
	}
	return s
}
