package props

import (
	"syscall"
	"unsafe"
)

// alignedCopy returns a copy of data that starts at offset off (0..63) from a
// 64-byte aligned address, with spare bytes of filler after it inside the same
// allocation. The returned slice has len=len(data), cap=len(data)+spare.
func alignedCopy(data []byte, off int, spare int, filler byte) []byte {
	buf := make([]byte, len(data)+spare+192)
	for i := range buf {
		buf[i] = filler
	}
	base := uintptr(unsafe.Pointer(&buf[0]))
	start := int((64-base%64)%64) + (off & 63)
	copy(buf[start:], data)
	return buf[start : start+len(data) : start+len(data)+spare]
}

func bytesToString(b []byte) string {
	if len(b) == 0 {
		return ""
	}
	return unsafe.String(&b[0], len(b))
}

// guarded is a mapping whose last page is PROT_NONE, so that data placed at
// the end of the accessible part faults on any over-read or over-write.
type guarded struct {
	mem  []byte
	page int
}

func newGuarded(size int) (*guarded, error) {
	page := syscall.Getpagesize()
	n := (size+page-1)/page*page + page
	mem, err := syscall.Mmap(-1, 0, n, syscall.PROT_READ|syscall.PROT_WRITE, syscall.MAP_ANON|syscall.MAP_PRIVATE)
	if err != nil {
		return nil, err
	}
	if err := syscall.Mprotect(mem[n-page:], syscall.PROT_NONE); err != nil {
		syscall.Munmap(mem)
		return nil, err
	}
	return &guarded{mem: mem, page: page}, nil
}

// atEnd copies data so that its last byte is the last accessible byte.
func (g *guarded) atEnd(data []byte) []byte {
	end := len(g.mem) - g.page
	dst := g.mem[end-len(data) : end : end]
	copy(dst, data)
	return dst
}

// region returns the accessible tail of n bytes (ending at the guard page).
func (g *guarded) tail(n int) []byte {
	end := len(g.mem) - g.page
	return g.mem[end-n : end : end]
}

func (g *guarded) free() { syscall.Munmap(g.mem) }

// unsafeBytes views a string's bytes (read-only use).
func unsafeBytes(s string) []byte {
	return unsafe.Slice(unsafe.StringData(s), len(s))
}
