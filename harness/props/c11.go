package props

import (
	"encoding/json"
	"fmt"
	"reflect"
	"regexp"
	"strconv"
	"strings"
	"sync"

	"github.com/bytedance/sonic"
	"github.com/bytedance/sonic/verifhook"
	"pgregory.net/rapid"
	"verif/harness/ref"
	"verif/harness/stat"
	"verif/harness/tv"
)

// C11Case: one document decoded into one destination type under one decoder
// option set by jitdec, optdec and optdec with the fast-map path.
type C11Case struct {
	C01Case
	Opts  int  `json:"opts"`            // bit set over decoder switches, see c11Config
	Cross bool `json:"cross,omitempty"` // also ask worker processes started with SONIC_USE_OPTDEC / SONIC_USE_FASTMAP
}

func init() { register("C11", func() Case { return &C11Case{} }) }

const (
	c11UseNumber = 1 << iota
	c11UseInt64
	c11DisallowUnknown
	c11CopyString
	c11ValidateString
	c11CaseSensitive
	c11UnicodeErrors
	c11NoValidateSkip
)

var (
	c11CfgMu sync.Mutex
	c11Cfgs  = map[int]sonic.API{}
)

func c11Config(opts int) sonic.API {
	c11CfgMu.Lock()
	defer c11CfgMu.Unlock()
	if a, ok := c11Cfgs[opts]; ok {
		return a
	}
	a := sonic.Config{
		UseNumber:             opts&c11UseNumber != 0,
		UseInt64:              opts&c11UseInt64 != 0 && opts&c11UseNumber == 0,
		DisallowUnknownFields: opts&c11DisallowUnknown != 0,
		CopyString:            opts&c11CopyString != 0,
		ValidateString:        opts&c11ValidateString != 0,
		CaseSensitive:         opts&c11CaseSensitive != 0,
		UseUnicodeErrors:      opts&c11UnicodeErrors != 0,
		NoValidateJSONSkip:    false,
	}.Froze()
	c11Cfgs[opts] = a
	return a
}

func drawC11(t *rapid.T) Case {
	c := &C11Case{C01Case: *drawDecodeCase(t)}
	c.Opts = rapid.IntRange(0, 127).Draw(t, "opts")
	c.Cross = rapid.IntRange(0, 29).Draw(t, "cross") == 0
	// bias to the fast-map shapes: interface{}, map[string]interface{}, []interface{}
	if rapid.IntRange(0, 3).Draw(t, "efaceroot") == 0 {
		switch rapid.IntRange(0, 2).Draw(t, "efacekind") {
		case 0:
			c.T = tv.TypeSpec{K: "iface"}
		case 1:
			c.T = tv.TypeSpec{K: "map", Key: &tv.TypeSpec{K: "string"}, Elem: &tv.TypeSpec{K: "iface"}}
		default:
			c.T = tv.TypeSpec{K: "slice", Elem: &tv.TypeSpec{K: "iface"}}
		}
		c.Prefill = nil
	}
	return c
}

var loneMinusRe = regexp.MustCompile(`-\s*([\]},]|$)`)

var c11Decoders = []decoderSel{{"jit", false, false}, {"optdec", true, false}, {"optdec+fastmap", true, true}}

func (c *C11Case) Run() (res stat.Result) {
	defer verifhook.SetDecoder(false, false)
	ty, err := tv.Build(c.T)
	if err != nil {
		res.Err = fmt.Errorf("harness: %v", err)
		return
	}
	res.Programs = 2 * firstUse(ty)
	api := c11Config(c.Opts)
	// agreement is required for valid documents; a JSON text is UTF-8 by definition (RFC 8259 §8.1), so
	// documents with invalid UTF-8 inside string literals only have to be handled without a crash
	valid := json.Valid(c.Doc) && !ref.DocStringFlaws(c.Doc).InvalidUTF8
	structural := ref.Structural(c.Doc)
	type outcome struct {
		err error
		val reflect.Value
	}
	outs := make([]outcome, len(c11Decoders))
	for i, d := range c11Decoders {
		verifhook.SetDecoder(d.opt, d.fm)
		dst, err := c.newDest(ty)
		if err != nil {
			res.Err = fmt.Errorf("harness: %v", err)
			return
		}
		res.Sub++
		var perr interface{}
		func() {
			defer func() { perr = recover() }()
			outs[i] = outcome{api.Unmarshal(c.Doc, dst.Interface()), dst.Elem()}
		}()
		if perr != nil {
			if fmt.Sprint(perr) == "should always be valid json here" && d.opt && knownListed("C07-optdec-asraw-panic") {
				res.Known = append(res.Known, "C07-optdec-asraw-panic")
				return
			}
			panic(perr)
		}
		if !structural && outs[i].err == nil && d.opt && c.Opts&c11UseNumber != 0 && knownListed("C11-optdec-usenumber-lone-minus") && loneMinusRe.Match(c.Doc) {
			res.Known = append(res.Known, "C11-optdec-usenumber-lone-minus")
			return
		}
		if !structural && outs[i].err == nil && ref.UnterminatedStringQuirk(c.Doc) && knownListed("C02-unterminated-string-escaped-quote-block-tail") {
			res.Known = append(res.Known, "C02-unterminated-string-escaped-quote-block-tail")
			return
		}
		if !structural && outs[i].err == nil {
			res.Err = fmt.Errorf("%s/opts=%#x accepted a structurally malformed document %s into %s", d.name, c.Opts, clipB(c.Doc), ty)
			return
		}
	}
	if valid {
		for i := 1; i < len(outs); i++ {
			a, b := outs[0], outs[i]
			what := fmt.Sprintf("opts=%#x Unmarshal(%s) into %s: jit vs %s", c.Opts, clipB(c.Doc), ty, c11Decoders[i].name)
			if (a.err == nil) != (b.err == nil) {
				if id := c11Classify(c, ty, a.err, b.err, reflect.Value{}, reflect.Value{}); id != "" {
					res.Known = append(res.Known, id)
					continue
				}
				if id := c.classifyMerge(ty, api, i); id != "" {
					res.Known = append(res.Known, id)
					continue
				}
				res.Err = fmt.Errorf("%s: jit err=%v, %s err=%v", what, a.err, c11Decoders[i].name, b.err)
				return
			}
			if a.err != nil {
				continue
			}
			if diff := deepEq(a.val, b.val, "", 0); diff != "" {
				if id := c11Classify(c, ty, nil, nil, a.val, b.val); id != "" {
					res.Known = append(res.Known, id)
					continue
				}
				if id := c.classifyMerge(ty, api, i); id != "" {
					res.Known = append(res.Known, id)
					continue
				}
				res.Err = fmt.Errorf("%s: values differ at %s", what, diff)
				return
			}
		}
	}
	if c.Cross {
		// hook == environment variable: the stock-configuration transcript of the case must be the same
		// in a worker started with the real variables and in this process with the hook
		for _, sel := range []struct {
			env []string
			d   decoderSel
		}{{[]string{"SONIC_USE_OPTDEC=1"}, c11Decoders[1]}, {[]string{"SONIC_USE_OPTDEC=1", "SONIC_USE_FASTMAP=1"}, c11Decoders[2]}} {
			w, err := getWorker(sel.env...)
			if err != nil {
				panic("harness: cannot start worker: " + err.Error())
			}
			verifhook.SetDecoder(sel.d.opt, sel.d.fm)
			local := wireForm(c.C01Case.Transcript())
			verifhook.SetDecoder(false, false)
			remote, err := w.ask("C01", &c.C01Case)
			res.Sub++
			if _, ok := err.(errWorkerTimeout); ok {
				res.Inconclusive = "C11 worker: " + err.Error()
				return
			}
			if err != nil {
				if strings.Contains(err.Error(), "should always be valid json here") && knownListed("C07-optdec-asraw-panic") {
					res.Known = append(res.Known, "C07-optdec-asraw-panic")
					continue
				}
				res.Err = fmt.Errorf("worker %v: %v", sel.env, err)
				return
			}
			if remote != local {
				res.Err = fmt.Errorf("worker started with %v and the in-process hook disagree:\n worker: %s\n hook:   %s", sel.env, clipS(remote), clipS(local))
				return
			}
		}
		res.Classes = append(res.Classes, "cross-process")
	}
	var f typeFeatures
	featuresOf(c.T, &f)
	hasObj := strings.Contains(string(c.Doc), "{")
	res.NonTrivial = valid && (ty.Kind() != reflect.Interface || hasObj) && len(c.Doc) > 2
	res.Classes = append(res.Classes, f.classes()...)
	res.Classes = append(res.Classes, "src:"+c.Source)
	if valid {
		res.Classes = append(res.Classes, "doc-valid")
		if outs[0].err != nil {
			res.Classes = append(res.Classes, "valid-doc-both-error")
		}
	} else if structural {
		res.Classes = append(res.Classes, "doc-structural-only")
	} else {
		res.Classes = append(res.Classes, "doc-malformed")
	}
	if ty.Kind() == reflect.Interface || (ty.Kind() == reflect.Map || ty.Kind() == reflect.Slice) && ty.Elem().Kind() == reflect.Interface {
		res.Classes = append(res.Classes, "fastmap-shape")
	}
	for b, n := range []string{"UseNumber", "UseInt64", "DisallowUnknown", "CopyString", "ValidateString", "CaseSensitive", "UnicodeErrors"} {
		if c.Opts&(1<<uint(b)) != 0 {
			res.Classes = append(res.Classes, "opt:"+n)
		}
	}
	return
}

// c11Classify maps a jit/optdec disagreement to a listed known finding.
func c11Classify(c *C11Case, ty reflect.Type, jitErr, optErr error, jv, ov reflect.Value) string {
	// payload of a ,string field that encoding/json rejects: the two decoders are lenient in different
	// ways (same root cause as the C01 finding; judged by encoding/json's own diagnosis)
	if (jitErr == nil) != (optErr == nil) && knownListed("C01-string-option-payload-lenient") && stringOptPayloadRejectedByStd(&c.C01Case, ty) {
		return "C01-string-option-payload-lenient"
	}
	if jitErr != nil && optErr == nil {
		if id := quotedNumberStricterFinding(&c.C01Case, ty); id != "" {
			return id
		}
		if typeHasNumber(ty, 0) && knownListed("C11-optdec-number-from-string-lenient") {
			toks, _ := ref.Scan(c.Doc)
			for _, t := range toks {
				if t.Kind != ref.TString {
					continue
				}
				body, _ := ref.Unquote(c.Doc[t.Beg+1 : t.End-1])
				if len(body) > 0 && (body[0] == '-' || body[0] >= '0' && body[0] <= '9') {
					if nt, ok := ref.Scan(body); !ok || len(nt) != 1 || nt[0].Kind != ref.TNumber || nt[0].Beg != 0 || nt[0].End != len(body) {
						return "C11-optdec-number-from-string-lenient"
					}
				}
			}
		}
	}
	if jv.IsValid() && ov.IsValid() && c.Opts&c11ValidateString != 0 && ref.DocStringFlaws(c.Doc).InvalidUTF8 && knownListed("C01-raw-capture-utf8-corrected") {
		// ValidateString: jitdec decodes a corrected copy of the whole input, optdec the original bytes
		if c19LeafDiffs(ov, jv, func(x, y reflect.Value) bool {
			var xb, yb []byte
			switch {
			case x.Kind() == reflect.String:
				xb, yb = []byte(x.String()), []byte(y.String())
			case x.Kind() == reflect.Slice:
				xb, yb = x.Bytes(), y.Bytes()
			default:
				return false
			}
			return string(ref.CorrectUTF8(xb, []byte("\ufffd"))) == string(yb)
		}) {
			return "C01-raw-capture-utf8-corrected"
		}
	}
	if jv.IsValid() && ov.IsValid() && typeHasEmbeddedPtr(ty, 0) && strings.Contains(string(c.Doc), "null") && knownListed("C11-optdec-embedded-pointer-null-no-alloc") {
		if c19LeafDiffs(jv, ov, func(x, y reflect.Value) bool {
			return x.Kind() == reflect.Ptr && y.IsNil() && !x.IsNil() && x.Elem().Kind() == reflect.Struct && x.Elem().IsZero()
		}) {
			return "C11-optdec-embedded-pointer-null-no-alloc"
		}
	}
	if jv.IsValid() && ov.IsValid() && knownListed("C19-minus-zero-integer-literal") {
		has := false
		for _, n := range numberTokens(c.Doc) {
			has = has || n == "-0"
		}
		// the sign of a decoded -0 depends on the decoder and (native over-read) on the byte after the input
		if has && c19LeafDiffs(jv, ov, func(x, y reflect.Value) bool {
			return isFloatKind(x) && x.Float() == 0 && y.Float() == 0
		}) {
			return "C19-minus-zero-integer-literal"
		}
	}
	if jv.IsValid() && ov.IsValid() && (len(c.Prefill) > 0 || len(ref.EarlierDuplicatesFold(c.Doc)) > 0) && strings.Contains(string(c.Doc), "null") && knownListed("C11-optdec-bytes-array-null-prefilled") {
		if c19LeafDiffsAll(jv, ov, func(x, y reflect.Value) bool { return x.Kind() == reflect.Uint8 && y.Uint() == 0 }) {
			return "C11-optdec-bytes-array-null-prefilled"
		}
	}
	if jv.IsValid() && ov.IsValid() {
		if id := doubleUnquoteSurrogateFinding(&c.C01Case, ty, jv, ov); id != "" {
			return id
		}
	}
	if jitErr != nil && optErr == nil && jv == (reflect.Value{}) {
		if id := quotedNumericFormFinding(&c.C01Case, ty); id != "" {
			return id
		}
		if id := intKeyFormFinding(&c.C01Case, ty); id != "" {
			return id
		}
		if knownListed("C20-double-unquote-lone-surrogate") && doubleSurrogateRe.Match(c.Doc) && typeHasQuotedString(ty, 0) {
			return "C20-double-unquote-lone-surrogate"
		}
	}
	if jitErr != nil && optErr == nil && c.Opts&c11UnicodeErrors != 0 && ref.DocStringFlaws(c.Doc).LoneSurr && knownListed("C11-optdec-ignores-unicode-errors") {
		return "C11-optdec-ignores-unicode-errors"
	}
	if jitErr != nil && optErr == nil && knownListed("C11-optdec-minus-zero-unsigned") {
		for _, n := range numberTokens(c.Doc) {
			if n == "-0" {
				return "C11-optdec-minus-zero-unsigned"
			}
		}
	}
	if id := dualKeyFinding(&c.C01Case, ty); id != "" && (jitErr == nil) != (optErr == nil) {
		return id
	}
	if jitErr == nil && optErr != nil && strings.Contains(optErr.Error(), "float infinity") && knownListed("C11-optdec-float-overflow-anywhere") {
		for _, n := range numberTokens(c.Doc) {
			if _, err := strconv.ParseFloat(n, 64); err != nil {
				return "C11-optdec-float-overflow-anywhere"
			}
		}
	}
	return ""
}

func typeHasEmbeddedPtr(t reflect.Type, depth int) bool {
	if depth > 8 {
		return false
	}
	switch t.Kind() {
	case reflect.Map, reflect.Ptr, reflect.Slice, reflect.Array:
		return typeHasEmbeddedPtr(t.Elem(), depth+1)
	case reflect.Struct:
		for i := 0; i < t.NumField(); i++ {
			f := t.Field(i)
			if f.Anonymous && f.Type.Kind() == reflect.Ptr && f.Type.Elem().Kind() == reflect.Struct {
				return true
			}
			if typeHasEmbeddedPtr(f.Type, depth+1) {
				return true
			}
		}
	}
	return false
}

func typeHasNumber(t reflect.Type, depth int) bool {
	if depth > 8 {
		return false
	}
	if t == reflect.TypeOf(json.Number("")) {
		return true
	}
	switch t.Kind() {
	case reflect.Map, reflect.Ptr, reflect.Slice, reflect.Array:
		return typeHasNumber(t.Elem(), depth+1)
	case reflect.Struct:
		for i := 0; i < t.NumField(); i++ {
			if typeHasNumber(t.Field(i).Type, depth+1) {
				return true
			}
		}
	}
	return false
}

// classifyMerge: see known finding C11-optdec-no-in-place-merge.
func (c *C11Case) classifyMerge(ty reflect.Type, api sonic.API, which int) string {
	if !knownListed("C11-optdec-no-in-place-merge") {
		return ""
	}
	// (keys that differ only in case bind to the same struct field: duplicates as far as merging is concerned)
	dups := ref.EarlierDuplicatesFold(c.Doc)
	if len(dups) == 0 && len(c.Prefill) == 0 {
		return ""
	}
	doc2 := ref.RemoveMembers(c.Doc, dups)
	var vals [2]reflect.Value
	var errs [2]error
	for k, d := range []decoderSel{c11Decoders[0], c11Decoders[which]} {
		verifhook.SetDecoder(d.opt, d.fm)
		dst := reflect.New(ty)
		errs[k] = api.Unmarshal(doc2, dst.Interface())
		vals[k] = dst.Elem()
	}
	if (errs[0] == nil) != (errs[1] == nil) {
		return ""
	}
	if errs[0] == nil && deepEq(vals[0], vals[1], "", 0) != "" {
		return ""
	}
	return "C11-optdec-no-in-place-merge"
}
