package props

import (
	"bytes"
	"encoding"
	"encoding/json"
	"fmt"
	"math"
	"reflect"
	"regexp"
	"strconv"
	"strings"

	"github.com/bytedance/sonic"
	"pgregory.net/rapid"
	"verif/harness/gen"
	"verif/harness/ref"
	"verif/harness/stat"
	"verif/harness/tv"
)

// C01Case: one document decoded into one (mostly fresh) destination type under
// one stock configuration, by encoding/json and by sonic.
type C01Case struct {
	T       tv.TypeSpec     `json:"t"`
	Doc     []byte          `json:"doc"`
	DocText string          `json:"doc_text,omitempty"` // informational: the document when it is valid UTF-8
	Cfg     int             `json:"cfg"`                // 0 std, 1 std+UseNumber, 2 std+UseInt64, 3 default, 4 default+UseNumber, 5 default+UseInt64
	Prefill json.RawMessage `json:"prefill,omitempty"`  // dumped value both destinations start from
	Source  string          `json:"source"`             // directed | unrelated | mutated:<kind>
}

func init() { register("C01", func() Case { return &C01Case{} }) }

var c01CfgNames = []string{"std", "std+UseNumber", "std+UseInt64", "default", "default+UseNumber", "default+UseInt64"}

var c01Apis = []sonic.API{
	sonic.ConfigStd,
	sonic.Config{EscapeHTML: true, SortMapKeys: true, CompactMarshaler: true, CopyString: true, ValidateString: true, UseNumber: true}.Froze(),
	sonic.Config{EscapeHTML: true, SortMapKeys: true, CompactMarshaler: true, CopyString: true, ValidateString: true, UseInt64: true}.Froze(),
	sonic.ConfigDefault,
	sonic.Config{UseNumber: true}.Froze(),
	sonic.Config{UseInt64: true}.Froze(),
}

func drawDecodeCase(t *rapid.T) *C01Case {
	c := &C01Case{}
	to := gen.TypeOpt{Flav: gen.FlavDecode, Fresh: rapid.IntRange(0, 3).Draw(t, "fresh") != 0, MaxDepth: 3}
	if thorough() {
		to.MaxDepth = rapid.IntRange(2, 5).Draw(t, "maxdepth")
		to.MaxFields = rapid.IntRange(3, 14).Draw(t, "maxfields")
	}
	c.T = gen.Type(t, to)
	ty, err := tv.Build(c.T)
	if err != nil {
		c.T = tv.TypeSpec{K: "cat", Name: "Outer3"}
		ty, _ = tv.Build(c.T)
	}
	c.Cfg = rapid.IntRange(0, 5).Draw(t, "cfg")
	strOpt := gen.StrOpt{LoneSurr: true}
	if rapid.IntRange(0, 3).Draw(t, "hostilestr") == 0 {
		strOpt = gen.Hostile
	}
	switch rapid.IntRange(0, 9).Draw(t, "docsrc") {
	case 0:
		c.Doc = gen.ValidDoc(t, gen.DocOpt{Str: strOpt, Wide: true})
		c.Source = "unrelated"
	default:
		c.Doc = gen.DocFor(t, ty, gen.DocForOpt{Str: strOpt, Space: rapid.IntRange(0, 3).Draw(t, "space") == 0})
		c.Source = "directed"
	}
	if rapid.IntRange(0, 5).Draw(t, "mutate") == 0 {
		var kind string
		c.Doc, kind = gen.Mutate(t, c.Doc)
		c.Source = "mutated:" + kind
	}
	// (UseInt64's oracle is derived from the UseNumber result and cannot tell pre-filled json.Number values from decoded ones)
	if rapid.IntRange(0, 4).Draw(t, "prefill") == 0 && c.Cfg%3 != 2 {
		v := gen.Value(t, ty, gen.ValOpt{})
		c.Prefill, _ = json.Marshal(tv.Dump(v))
	}
	if isPrintableUTF8(c.Doc) {
		c.DocText = string(c.Doc)
	}
	return c
}

func isPrintableUTF8(b []byte) bool {
	if len(b) > 2000 {
		return false
	}
	for _, r := range string(b) {
		if r == 0xFFFD || r < 0x20 && r != '\n' && r != '\t' {
			return false
		}
	}
	return true
}

func drawC01(t *rapid.T) Case { return drawDecodeCase(t) }

// newDest builds a destination, optionally pre-filled.
func (c *C01Case) newDest(ty reflect.Type) (reflect.Value, error) {
	p := reflect.New(ty)
	if len(c.Prefill) > 0 {
		var d interface{}
		if err := json.Unmarshal(c.Prefill, &d); err != nil {
			return p, err
		}
		v, err := tv.Load(ty, d)
		if err != nil {
			return p, err
		}
		p.Elem().Set(v)
	}
	return p, nil
}

// stdDecode is the oracle for configuration cfg.
func stdDecode(doc []byte, dst interface{}, cfg int) error {
	switch cfg % 3 {
	case 0:
		return json.Unmarshal(doc, dst)
	default:
		if cfg%3 == 2 {
			// UseInt64 accepts exactly what the plain decoder accepts (numbers in interface{} are still
			// converted: overflow is an error); the values are derived from the UseNumber result below
			scratch := reflect.New(reflect.TypeOf(dst).Elem())
			scratch.Elem().Set(reflect.ValueOf(dst).Elem())
			deepCopyInto(scratch.Elem(), reflect.ValueOf(dst).Elem(), 0)
			if err := json.Unmarshal(doc, scratch.Interface()); err != nil {
				return err
			}
		}
		// UseNumber directly; UseInt64 is derived from the UseNumber result
		dec := json.NewDecoder(strings.NewReader(string(doc)))
		dec.UseNumber()
		if err := dec.Decode(dst); err != nil {
			return err
		}
		// json.Unmarshal rejects trailing data; Decoder does not
		if !json.Valid(doc) {
			var probe interface{}
			return json.Unmarshal(doc, &probe)
		}
		if cfg%3 == 2 {
			numbersToInt64(reflect.ValueOf(dst).Elem())
		}
		return nil
	}
}

// numbersToInt64 rewrites json.Number values held in interface{} positions the
// way UseInt64 documents: int64 when the literal is an integer in range, else float64.
func numbersToInt64(v reflect.Value) {
	conv := func(n json.Number) interface{} {
		if i, err := strconv.ParseInt(string(n), 10, 64); err == nil {
			return i
		}
		f, _ := strconv.ParseFloat(string(n), 64)
		return f
	}
	var fix func(x interface{}) interface{}
	fix = func(x interface{}) interface{} {
		switch y := x.(type) {
		case json.Number:
			return conv(y)
		case []interface{}:
			for i := range y {
				y[i] = fix(y[i])
			}
			return y
		case map[string]interface{}:
			for k, e := range y {
				y[k] = fix(e)
			}
			return y
		}
		return x
	}
	mutateValue(v, reflect.StructField{}, func(x reflect.Value, _ reflect.StructField) {
		if x.Kind() == reflect.Interface && !x.IsNil() && x.CanSet() && x.NumMethod() == 0 {
			switch x.Elem().Interface().(type) {
			case json.Number, []interface{}, map[string]interface{}:
				x.Set(reflect.ValueOf(fix(x.Elem().Interface())))
			}
		}
	}, 0)
}

// decodeOutcome compares sonic with the oracle for one decoder; it is shared with C11.
type decodeVerdict struct {
	err   error
	known string
	je    error
	se    error
}

func (c *C01Case) judge(ty reflect.Type, decName string) (verdict decodeVerdict) {
	jd, err := c.newDest(ty)
	if err != nil {
		verdict.err = fmt.Errorf("harness: %v", err)
		return
	}
	sd, _ := c.newDest(ty)
	je := stdDecode(c.Doc, jd.Interface(), c.Cfg)
	se := c01Apis[c.Cfg].Unmarshal(c.Doc, sd.Interface())
	verdict.je, verdict.se = je, se
	what := fmt.Sprintf("%s/%s Unmarshal(%s) into %s", decName, c01CfgNames[c.Cfg], clipB(c.Doc), ty)
	structural := ref.Structural(c.Doc)
	if je == nil {
		if se != nil {
			if id := c01ClassifyErr(c, ty, decName, se); id != "" {
				verdict.known = id
				return
			}
			if id := c.classifyDupKeyMerge(ty, jd.Elem()); id != "" {
				verdict.known = id
				return
			}
			verdict.err = fmt.Errorf("%s: encoding/json accepts, sonic err=%v", what, se)
			return
		}
		if diff := deepEq(jd.Elem(), sd.Elem(), "", 0); diff != "" {
			if id := c01ClassifyDiff(c, jd.Elem(), sd.Elem()); id != "" {
				verdict.known = id
				return
			}
			if id := dualKeyFinding(c, ty); id != "" {
				verdict.known = id
				return
			}
			if id := doubleUnquoteSurrogateFinding(c, ty, jd.Elem(), sd.Elem()); id != "" {
				verdict.known = id
				return
			}
			if id := c.classifyDupKeyMerge(ty, jd.Elem()); id != "" {
				verdict.known = id
				return
			}
			verdict.err = fmt.Errorf("%s: values differ at %s", what, diff)
		}
		return
	}
	// encoding/json rejects
	if se != nil {
		return
	}
	if !structural && ref.UnterminatedStringQuirk(c.Doc) && knownListed("C02-unterminated-string-escaped-quote-block-tail") {
		verdict.known = "C02-unterminated-string-escaped-quote-block-tail"
		return
	}
	if !structural {
		verdict.err = fmt.Errorf("%s: structurally malformed document accepted by sonic (encoding/json: %v)", what, je)
		return
	}
	// sonic accepted a structurally valid document that encoding/json rejects: tolerated only if the
	// rejection is caused by the contents of string literals that sonic did not store
	san, n := ref.Sanitise(c.Doc)
	if n > 0 {
		jd2, _ := c.newDest(ty)
		e2 := stdDecode(san, jd2.Interface(), c.Cfg)
		if e2 == nil {
			if deepEq(jd2.Elem(), sd.Elem(), "", 0) == "" {
				verdict.known = "" // tolerated leniency, not a finding
				verdict.je = nil
				return
			}
			if id := c01ClassifyDiff(c, jd2.Elem(), sd.Elem()); id != "" {
				verdict.known = id
				return
			}
			if knownListed("C01-raw-capture-string-contents-unchecked") && c19LeafDiffs(jd2.Elem(), sd.Elem(), func(x, y reflect.Value) bool {
				var yb []byte
				switch {
				case y.Kind() == reflect.String:
					yb = []byte(y.String())
				case y.Kind() == reflect.Slice:
					yb = y.Bytes()
				default:
					return false
				}
				return len(yb) > 0 && (bytes.Contains(c.Doc, yb) || bytes.Contains(ref.CorrectUTF8(c.Doc, []byte("\ufffd")), yb)) && ref.Structural(yb)
			}) {
				verdict.known = "C01-raw-capture-string-contents-unchecked"
				return
			}
			if id := dualKeyFinding(c, ty); id != "" {
				verdict.known = id
				return
			}
			c2 := *c
			c2.Doc = san
			if id := c2.classifyDupKeyMerge(ty, jd2.Elem()); id != "" {
				verdict.known = id
				return
			}
		} else {
			// with the flawed skipped literals out of the way encoding/json still rejects: judge that error
			je = e2
		}
	}
	if id := c01ClassifyAccept(c, ty, decName, je); id != "" {
		verdict.known = id
		return
	}
	verdict.err = fmt.Errorf("%s: encoding/json rejects (%v), sonic accepts", what, je)
	return
}

func (c *C01Case) Run() (res stat.Result) {
	ty, err := tv.Build(c.T)
	if err != nil {
		res.Err = fmt.Errorf("harness: %v", err)
		return
	}
	res.Programs = firstUse(ty)
	flaws := ref.DocStringFlaws(c.Doc)
	if c.Cfg >= 3 && (flaws.Control || flaws.InvalidUTF8) {
		// outside the statement's domain for the default configuration: only "no panic" is checked
		sd, _ := c.newDest(ty)
		_ = c01Apis[c.Cfg].Unmarshal(c.Doc, sd.Interface())
		res.Classes = append(res.Classes, "default-cfg-outside-domain")
		return
	}
	v := c.judge(ty, "jit")
	res.Err = v.err
	if v.known != "" {
		res.Known = append(res.Known, v.known)
	}
	c.classify(&res, ty, v.je)
	return
}

func (c *C01Case) classify(res *stat.Result, ty reflect.Type, je error) {
	valid := json.Valid(c.Doc)
	res.NonTrivial = valid && ty.Kind() != reflect.Interface && len(c.Doc) > 2
	var f typeFeatures
	featuresOf(c.T, &f)
	res.Classes = append(res.Classes, f.classes()...)
	res.Classes = append(res.Classes, "cfg:"+c01CfgNames[c.Cfg], "src:"+c.Source)
	if res.Programs > 0 {
		res.Classes = append(res.Classes, "new-type")
	}
	if valid {
		res.Classes = append(res.Classes, "doc-valid")
		if je != nil {
			res.Classes = append(res.Classes, "valid-doc-type-error")
		}
	} else if ref.Structural(c.Doc) {
		res.Classes = append(res.Classes, "doc-structural-only")
	} else {
		res.Classes = append(res.Classes, "doc-malformed")
	}
	if len(c.Prefill) > 0 {
		res.Classes = append(res.Classes, "prefilled")
	}
}

// numberTokens lists the number literals of a document.
func numberTokens(doc []byte) []string {
	toks, _ := ref.Scan(doc)
	var out []string
	for _, t := range toks {
		if t.Kind == ref.TNumber {
			out = append(out, string(doc[t.Beg:t.End]))
		}
	}
	// numbers inside string literals (,string fields, integer map keys)
	for _, t := range toks {
		if t.Kind == ref.TString {
			body, _ := ref.Unquote(doc[t.Beg+1 : t.End-1])
			s := strings.TrimSpace(string(body))
			if _, err := strconv.ParseFloat(s, 64); err == nil {
				out = append(out, s)
			}
		}
	}
	return out
}

// c01ClassifyDiff: all differing leaves are explained by listed known findings.
func c01ClassifyDiff(c *C01Case, j, s reflect.Value) string {
	nums := numberTokens(c.Doc)
	hasMinusZero := false
	for _, n := range nums {
		if n == "-0" {
			hasMinusZero = true
		}
	}
	used := ""
	invalidUTF8 := ref.DocStringFlaws(c.Doc).InvalidUTF8
	ok := c19LeafDiffs(j, s, func(x, y reflect.Value) bool {
		if !isFloatKind(x) {
			// raw captures (RawMessage, Unmarshaler input) of a document with invalid UTF-8 under
			// ValidateString: sonic hands out the corrected text, encoding/json the original bytes
			if invalidUTF8 && c.Cfg < 3 && knownListed("C01-raw-capture-utf8-corrected") {
				var xb, yb []byte
				if x.Kind() == reflect.String {
					xb, yb = []byte(x.String()), []byte(y.String())
				} else {
					xb, yb = x.Bytes(), y.Bytes()
				}
				if string(ref.CorrectUTF8(xb, []byte("\ufffd"))) == string(yb) && string(xb) != string(yb) {
					used = "C01-raw-capture-utf8-corrected"
					return true
				}
			}
			return false
		}
		// -0 literal decoded as +0
		if hasMinusZero && x.Float() == 0 && y.Float() == 0 && math.Signbit(x.Float()) && !math.Signbit(y.Float()) && knownListed("C19-minus-zero-integer-literal") {
			used = "C19-minus-zero-integer-literal"
			return true
		}
		// float32 double rounding: some literal of the document explains both values
		if x.Kind() == reflect.Float32 && knownListed("C19-float32-double-rounding") {
			for _, n := range nums {
				f64, e1 := strconv.ParseFloat(n, 64)
				f32, _ := strconv.ParseFloat(n, 32)
				if e1 == nil && float32(f32) == float32(x.Float()) && float32(f64) == float32(y.Float()) {
					used = "C19-float32-double-rounding"
					return true
				}
			}
		}
		return false
	})
	if ok {
		return used
	}
	return ""
}

// c01ClassifyErr: encoding/json accepts, sonic rejects.
func c01ClassifyErr(c *C01Case, ty reflect.Type, dec string, se error) string {
	if id := dualKeyFinding(c, ty); id != "" {
		return id
	}
	if id := quotedNumericFormFinding(c, ty); id != "" {
		return id
	}
	if id := quotedNumberStricterFinding(c, ty); id != "" {
		return id
	}
	if id := intKeyFormFinding(c, ty); id != "" {
		return id
	}
	if dec == "jit" && knownListed("C20-double-unquote-lone-surrogate") && doubleSurrogateRe.Match(c.Doc) && typeHasQuotedString(ty, 0) {
		return "C20-double-unquote-lone-surrogate"
	}
	// the payload of a ,string string field spelled with the escape \' : encoding/json's unquoter knows it, sonic's does not
	if strings.Contains(se.Error(), "invalid escape char") && bytes.Contains(c.Doc, []byte(`\\'`)) && typeHasQuotedString(ty, 0) && knownListed("C01-string-option-single-quote-escape") {
		return "C01-string-option-single-quote-escape"
	}
	nums := numberTokens(c.Doc)
	if typeHasFloat32(ty) && knownListed("C19-float32-double-rounding") {
		for _, n := range nums {
			f64, e1 := strconv.ParseFloat(n, 64)
			f32, e2 := strconv.ParseFloat(n, 32)
			if e1 == nil && e2 == nil && math.IsInf(float64(float32(f64)), 0) && !math.IsInf(f32, 0) {
				return "C19-float32-double-rounding"
			}
		}
	}
	if dec != "jit" && strings.Contains(se.Error(), "float infinity") && knownListed("C11-optdec-float-overflow-anywhere") {
		for _, n := range nums {
			if _, err := strconv.ParseFloat(n, 64); err != nil {
				return "C11-optdec-float-overflow-anywhere"
			}
		}
	}
	return ""
}

// c01ClassifyAccept: encoding/json rejects a structurally valid document, sonic accepts.
// typeHasDualKey: a map key type implementing both json.Unmarshaler and encoding.TextUnmarshaler.
func typeHasDualKey(t reflect.Type, depth int) bool {
	if depth > 8 {
		return false
	}
	switch t.Kind() {
	case reflect.Map:
		kp := reflect.PtrTo(t.Key())
		if kp.Implements(jsonUnmarshalerT) && kp.Implements(textUnmarshalerT) {
			return true
		}
		return typeHasDualKey(t.Elem(), depth+1)
	case reflect.Ptr, reflect.Slice, reflect.Array:
		return typeHasDualKey(t.Elem(), depth+1)
	case reflect.Struct:
		for i := 0; i < t.NumField(); i++ {
			if typeHasDualKey(t.Field(i).Type, depth+1) {
				return true
			}
		}
	}
	return false
}

var (
	jsonUnmarshalerT = reflect.TypeOf((*json.Unmarshaler)(nil)).Elem()
	textUnmarshalerT = reflect.TypeOf((*encoding.TextUnmarshaler)(nil)).Elem()
)

// typeHasStringOptUnmarshaler: a `,string` field whose scalar-kinded type has decoding methods.
func typeHasStringOptUnmarshaler(t reflect.Type, depth int) bool {
	if depth > 8 {
		return false
	}
	switch t.Kind() {
	case reflect.Map, reflect.Ptr, reflect.Slice, reflect.Array:
		return typeHasStringOptUnmarshaler(t.Elem(), depth+1)
	case reflect.Struct:
		for i := 0; i < t.NumField(); i++ {
			f := t.Field(i)
			if containsOpt(string(f.Tag), "string") {
				ft := f.Type
				for ft.Kind() == reflect.Ptr {
					ft = ft.Elem()
				}
				switch ft.Kind() {
				case reflect.Bool, reflect.Int, reflect.Int8, reflect.Int16, reflect.Int32, reflect.Int64, reflect.Uint, reflect.Uint8, reflect.Uint16, reflect.Uint32, reflect.Uint64, reflect.Uintptr, reflect.Float32, reflect.Float64, reflect.String:
					if reflect.PtrTo(ft).Implements(jsonUnmarshalerT) || reflect.PtrTo(ft).Implements(textUnmarshalerT) {
						return true
					}
				}
			}
			if typeHasStringOptUnmarshaler(f.Type, depth+1) {
				return true
			}
		}
	}
	return false
}

func dualKeyFinding(c *C01Case, ty reflect.Type) string {
	if typeHasStringOptUnmarshaler(ty, 0) && knownListed("C01-string-option-on-unmarshaler-field") {
		return "C01-string-option-on-unmarshaler-field"
	}
	if typeHasDualKey(ty, 0) && strings.Contains(string(c.Doc), "{") && knownListed("C01-map-key-json-unmarshaler-precedence") {
		return "C01-map-key-json-unmarshaler-precedence"
	}
	return ""
}

func c01ClassifyAccept(c *C01Case, ty reflect.Type, dec string, je error) string {
	if id := dualKeyFinding(c, ty); id != "" {
		return id
	}
	if strings.Contains(je.Error(), "invalid use of ,string struct tag") && knownListed("C01-string-option-payload-lenient") {
		return "C01-string-option-payload-lenient"
	}
	if strings.Contains(je.Error(), "illegal base64 data") && knownListed("C01-base64-lenient") {
		return "C01-base64-lenient"
	}
	if strings.Contains(je.Error(), "cannot set embedded pointer to unexported struct") && knownListed("C01-embedded-pointer-to-unexported-struct") {
		return "C01-embedded-pointer-to-unexported-struct"
	}
	return ""
}

// classifyDupKeyMerge recognises the listed finding "a repeated map key is
// decoded into the existing element": the document has duplicate keys, for
// encoding/json the earlier duplicates do not matter (same result without
// them), and without them sonic agrees with encoding/json.
func (c *C01Case) classifyDupKeyMerge(ty reflect.Type, stdResult reflect.Value) string {
	if !knownListed("C01-map-duplicate-key-merge") || !typeHasMap(ty, 0) {
		return ""
	}
	dups := ref.EarlierDuplicates(c.Doc)
	if len(dups) == 0 && len(c.Prefill) == 0 {
		return ""
	}
	if len(dups) > 24 {
		dups = dups[:24]
	}
	// remove, one by one, every earlier duplicate that does not matter to encoding/json (map members:
	// a later occurrence replaces the element; struct members merge and therefore do matter)
	var drop []ref.DupRef
	for _, d := range dups {
		trial := append(append([]ref.DupRef(nil), drop...), d)
		jd, err := c.newDest(ty)
		if err != nil {
			return ""
		}
		if stdDecode(ref.RemoveMembers(c.Doc, trial), jd.Interface(), c.Cfg) == nil && deepEq(stdResult, jd.Elem(), "", 0) == "" {
			drop = trial
		}
	}
	if len(drop) == 0 && len(c.Prefill) == 0 {
		return c.classifyDupKeyMergeAcrossStructDup(ty, stdResult)
	}
	doc2 := ref.RemoveMembers(c.Doc, drop)
	c2 := *c
	c2.Doc = doc2
	if len(c.Prefill) > 0 {
		// the same reuse of an existing element shows with a pre-filled map: without the pre-filled
		// entries (fresh destination) sonic must agree with encoding/json
		c2.Prefill = nil
		jd, _ := c2.newDest(ty)
		sd, _ := c2.newDest(ty)
		if stdDecode(doc2, jd.Interface(), c.Cfg) != nil || c01Apis[c.Cfg].Unmarshal(doc2, sd.Interface()) != nil || deepEq(jd.Elem(), sd.Elem(), "", 0) != "" {
			return ""
		}
		return "C01-map-duplicate-key-merge"
	}
	jd, err := c2.newDest(ty)
	if err != nil {
		return ""
	}
	sd, _ := c2.newDest(ty)
	if stdDecode(doc2, jd.Interface(), c.Cfg) != nil || deepEq(stdResult, jd.Elem(), "", 0) != "" {
		return ""
	}
	if c01Apis[c.Cfg].Unmarshal(doc2, sd.Interface()) != nil || deepEq(jd.Elem(), sd.Elem(), "", 0) != "" {
		return c.classifyDupKeyMergeAcrossStructDup(ty, stdResult)
	}
	return "C01-map-duplicate-key-merge"
}

// classifyDupKeyMergeAcrossStructDup covers the same listed finding when the existing map element comes from an
// earlier occurrence of a duplicated *struct* member (which encoding/json merges, so it cannot be dropped):
// {"m":{"a":1},"m":{"a":null}} into struct{M map[string]int}. The mismatch is attributed to the finding when
// (1) both decoders accept the document, (2) the first difference lies inside a map element, and (3) with every
// earlier duplicate removed the two decoders agree.
func (c *C01Case) classifyDupKeyMergeAcrossStructDup(ty reflect.Type, stdResult reflect.Value) string {
	if len(c.Prefill) > 0 {
		return ""
	}
	all := ref.EarlierDuplicatesFold(c.Doc)
	if len(all) == 0 || len(all) > 64 {
		return ""
	}
	sd, err := c.newDest(ty)
	if err != nil || c01Apis[c.Cfg].Unmarshal(c.Doc, sd.Interface()) != nil {
		return ""
	}
	diff := deepEq(stdResult, sd.Elem(), "", 0)
	if !strings.Contains(diff, "[") {
		return ""
	}
	doc2 := ref.RemoveMembers(c.Doc, all)
	jd2, _ := c.newDest(ty)
	sd2, _ := c.newDest(ty)
	if stdDecode(doc2, jd2.Interface(), c.Cfg) != nil || c01Apis[c.Cfg].Unmarshal(doc2, sd2.Interface()) != nil || deepEq(jd2.Elem(), sd2.Elem(), "", 0) != "" {
		return ""
	}
	return "C01-map-duplicate-key-merge"
}

func typeHasMap(t reflect.Type, depth int) bool {
	if depth > 8 {
		return false
	}
	switch t.Kind() {
	case reflect.Map:
		return true
	case reflect.Interface:
		return false
	case reflect.Ptr, reflect.Slice, reflect.Array:
		return typeHasMap(t.Elem(), depth+1)
	case reflect.Struct:
		for i := 0; i < t.NumField(); i++ {
			if typeHasMap(t.Field(i).Type, depth+1) {
				return true
			}
		}
	}
	return false
}

func typeHasIntKeyMap(t reflect.Type, depth int) bool {
	if depth > 8 {
		return false
	}
	switch t.Kind() {
	case reflect.Map:
		switch t.Key().Kind() {
		case reflect.Int, reflect.Int8, reflect.Int16, reflect.Int32, reflect.Int64, reflect.Uint, reflect.Uint8, reflect.Uint16, reflect.Uint32, reflect.Uint64, reflect.Uintptr:
			if !reflect.PtrTo(t.Key()).Implements(textUnmarshalerT) {
				return true
			}
		}
		return typeHasIntKeyMap(t.Elem(), depth+1)
	case reflect.Ptr, reflect.Slice, reflect.Array:
		return typeHasIntKeyMap(t.Elem(), depth+1)
	case reflect.Struct:
		for i := 0; i < t.NumField(); i++ {
			if typeHasIntKeyMap(t.Field(i).Type, depth+1) {
				return true
			}
		}
	}
	return false
}

// oddIntegerForm: strconv.ParseInt accepts it but it is not a JSON integer.
func oddIntegerForm(s string) bool {
	if s == "" {
		return false
	}
	i := 0
	plus := s[0] == '+'
	if s[0] == '+' || s[0] == '-' {
		i = 1
	}
	if i >= len(s) {
		return false
	}
	for j := i; j < len(s); j++ {
		if s[j] < '0' || s[j] > '9' {
			return false
		}
	}
	return plus || (s[i] == '0' && len(s)-i > 1)
}

func typeHasQuotedNumber(t reflect.Type, depth int) bool {
	if depth > 8 {
		return false
	}
	switch t.Kind() {
	case reflect.Map, reflect.Ptr, reflect.Slice, reflect.Array:
		return typeHasQuotedNumber(t.Elem(), depth+1)
	case reflect.Struct:
		for i := 0; i < t.NumField(); i++ {
			f := t.Field(i)
			ft := f.Type
			for ft.Kind() == reflect.Ptr {
				ft = ft.Elem()
			}
			if ft == reflect.TypeOf(json.Number("")) && containsOpt(string(f.Tag), "string") {
				return true
			}
			if typeHasQuotedNumber(f.Type, depth+1) {
				return true
			}
		}
	}
	return false
}

func typeHasQuotedNumeric(t reflect.Type, depth int) bool {
	if depth > 8 {
		return false
	}
	switch t.Kind() {
	case reflect.Map, reflect.Ptr, reflect.Slice, reflect.Array:
		return typeHasQuotedNumeric(t.Elem(), depth+1)
	case reflect.Struct:
		for i := 0; i < t.NumField(); i++ {
			f := t.Field(i)
			ft := f.Type
			for ft.Kind() == reflect.Ptr {
				ft = ft.Elem()
			}
			if containsOpt(string(f.Tag), "string") {
				switch ft.Kind() {
				case reflect.Int, reflect.Int8, reflect.Int16, reflect.Int32, reflect.Int64, reflect.Uint, reflect.Uint8, reflect.Uint16, reflect.Uint32, reflect.Uint64, reflect.Uintptr, reflect.Float32, reflect.Float64:
					return true
				}
			}
			if typeHasQuotedNumeric(f.Type, depth+1) {
				return true
			}
		}
	}
	return false
}

// quotedNumericFormFinding: a ,string numeric payload that strconv accepts but the JSON grammar does not.
func quotedNumericFormFinding(c *C01Case, ty reflect.Type) string {
	if !typeHasQuotedNumeric(ty, 0) || !knownListed("C01-string-option-numeric-forms") {
		return ""
	}
	toks, _ := ref.Scan(c.Doc)
	for _, t := range toks {
		if t.Kind != ref.TString {
			continue
		}
		body, _ := ref.Unquote(c.Doc[t.Beg+1 : t.End-1])
		if len(body) == 0 || !(body[0] == '-' || body[0] >= '0' && body[0] <= '9') {
			continue
		}
		if nt, ok := ref.Scan(body); ok && len(nt) == 1 && nt[0].Kind == ref.TNumber && nt[0].Beg == 0 && nt[0].End == len(body) {
			continue
		}
		if _, err := strconv.ParseFloat(string(body), 64); err == nil {
			return "C01-string-option-numeric-forms"
		}
	}
	return ""
}

var doubleSurrogateRe = regexp.MustCompile(`(?i)\\\\ud[89a-f][0-9a-f]{2}`)

// doubleUnquoteSurrogateFinding: see known finding C20-double-unquote-lone-surrogate.
func doubleUnquoteSurrogateFinding(c *C01Case, ty reflect.Type, a, b reflect.Value) string {
	if !knownListed("C20-double-unquote-lone-surrogate") || !doubleSurrogateRe.Match(c.Doc) || !typeHasQuotedString(ty, 0) {
		return ""
	}
	if c19LeafDiffs(a, b, func(x, y reflect.Value) bool { return x.Kind() == reflect.String }) {
		return "C20-double-unquote-lone-surrogate"
	}
	return ""
}

func typeHasQuotedString(t reflect.Type, depth int) bool {
	if depth > 8 {
		return false
	}
	switch t.Kind() {
	case reflect.Map, reflect.Ptr, reflect.Slice, reflect.Array:
		return typeHasQuotedString(t.Elem(), depth+1)
	case reflect.Struct:
		for i := 0; i < t.NumField(); i++ {
			f := t.Field(i)
			ft := f.Type
			for ft.Kind() == reflect.Ptr {
				ft = ft.Elem()
			}
			if ft.Kind() == reflect.String && containsOpt(string(f.Tag), "string") {
				return true
			}
			if typeHasQuotedString(f.Type, depth+1) {
				return true
			}
		}
	}
	return false
}

func intKeyFormFinding(c *C01Case, ty reflect.Type) string {
	if typeHasIntKeyMap(ty, 0) && knownListed("C01-int-map-key-non-json-integer-forms") {
		toks, _ := ref.Scan(c.Doc)
		for _, t := range toks {
			if t.Kind != ref.TString {
				continue
			}
			body, _ := ref.Unquote(c.Doc[t.Beg+1 : t.End-1])
			if oddIntegerForm(string(body)) {
				return "C01-int-map-key-non-json-integer-forms"
			}
		}
	}
	return ""
}

// quotedNumberStricterFinding: json.Number field tagged ,string with a payload that is not a plain
// number literal (encoding/json stores such payloads unvalidated when they start with '-', a digit or a quote).
func quotedNumberStricterFinding(c *C01Case, ty reflect.Type) string {
	if !typeHasQuotedNumber(ty, 0) || !knownListed("C01-string-option-number-stricter") {
		return ""
	}
	toks, _ := ref.Scan(c.Doc)
	for _, t := range toks {
		if t.Kind != ref.TString {
			continue
		}
		body, _ := ref.Unquote(c.Doc[t.Beg+1 : t.End-1])
		if len(body) > 0 && (body[0] == '-' || body[0] == '"' || body[0] >= '0' && body[0] <= '9') {
			if nt, ok := ref.Scan(body); !ok || len(nt) != 1 || nt[0].Kind != ref.TNumber || nt[0].Beg != 0 || nt[0].End != len(body) {
				return "C01-string-option-number-stricter"
			}
		}
	}
	return ""
}

// stringOptPayloadRejectedByStd reports whether some string literal of the document, taken as the payload
// of some `,string` field of the type, makes encoding/json fail with "invalid use of ,string struct tag".
func stringOptPayloadRejectedByStd(c *C01Case, ty reflect.Type) bool {
	var fields []reflect.StructField
	var collect func(t reflect.Type, depth int)
	collect = func(t reflect.Type, depth int) {
		if depth > 8 {
			return
		}
		switch t.Kind() {
		case reflect.Map, reflect.Ptr, reflect.Slice, reflect.Array:
			collect(t.Elem(), depth+1)
		case reflect.Struct:
			for i := 0; i < t.NumField(); i++ {
				f := t.Field(i)
				if containsOpt(string(f.Tag), "string") && f.PkgPath == "" {
					fields = append(fields, f)
				}
				collect(f.Type, depth+1)
			}
		}
	}
	collect(ty, 0)
	if len(fields) == 0 {
		return false
	}
	toks, _ := ref.Scan(c.Doc)
	for _, f := range fields {
		st := reflect.StructOf([]reflect.StructField{{Name: "F", Type: f.Type, Tag: `json:"f,string"`}})
		for _, t := range toks {
			if t.Kind != ref.TString {
				continue
			}
			mini := append(append([]byte(`{"f":`), c.Doc[t.Beg:t.End]...), '}')
			if err := json.Unmarshal(mini, reflect.New(st).Interface()); err != nil && strings.Contains(err.Error(), "invalid use of ,string struct tag") {
				return true
			}
		}
	}
	return false
}
