package props

import (
	"bytes"
	"encoding/json"
	"fmt"
	"math"
	"strings"
	"unsafe"

	"github.com/bytedance/sonic/verifhook"
	"pgregory.net/rapid"
	"verif/harness/gen"
	"verif/harness/stat"
)

// C13Case: arguments for one native routine, executed by the AVX2 and the SSE build.
type C13Case struct {
	Op    string   `json:"op"`
	Src   []byte   `json:"src"`
	Text  string   `json:"src_text,omitempty"`
	Align int      `json:"align"`
	P     int      `json:"p"`     // start offset
	Cap   int      `json:"cap"`   // destination capacity
	Flags uint64   `json:"flags"` // routine flags
	I     int64    `json:"i"`
	U     uint64   `json:"u"`
	Path  []string `json:"path,omitempty"` // get_by_path: keys, or #n for indexes

	SubProp string          `json:"sub_prop,omitempty"` // op "api": a case of another property executed by two worker processes
	Sub     json.RawMessage `json:"sub,omitempty"`
}

func init() { register("C13", func() Case { return &C13Case{} }) }

var c13Ops = []string{"quote", "unquote", "html_escape", "value", "skip_one", "skip_one_fast", "validate_one", "get_by_path", "validate_utf8", "validate_utf8_fast", "i64toa", "u64toa", "f64toa", "f32toa", "lspace", "skip_number", "skip_array", "skip_object", "vnumber", "vsigned", "vunsigned", "vstring"}

var (
	c13A, c13S   verifhook.Natives
	c13Loaded    bool
	c13FlagsByOp = map[string][]uint64{
		"quote":        {0, 1},
		"unquote":      {0, 1, 2, 3},
		"value":        {0, 2, 32, 34, 1 << 31, 1<<31 | 2},
		"skip_one":     {0, 32, 64},
		"validate_one": {0, 32},
		"vstring":      {0, 32, 1 << 31},
		"skip_array":   {0, 32},
		"skip_object":  {0, 32},
	}
)

func drawC13(t *rapid.T) Case {
	c := &C13Case{}
	if rapid.IntRange(0, 3).Draw(t, "apitier") == 0 {
		c.Op = "api"
		var sub Case
		switch rapid.IntRange(0, 2).Draw(t, "subprop") {
		case 0:
			c.SubProp, sub = "C01", drawDecodeCase(t)
		case 1:
			c.SubProp, sub = "C03", drawC03(t)
		default:
			c.SubProp, sub = "C12", drawC12(t)
		}
		c.Sub, _ = json.Marshal(sub)
		return c
	}
	c.Op = c13Ops[rapid.IntRange(0, len(c13Ops)-1).Draw(t, "op")]
	c.Align = rapid.IntRange(0, 63).Draw(t, "align")
	if fl, ok := c13FlagsByOp[c.Op]; ok {
		c.Flags = fl[rapid.IntRange(0, len(fl)-1).Draw(t, "flags")]
	}
	c.I = rapid.Int64().Draw(t, "i") >> uint(rapid.IntRange(0, 63).Draw(t, "ishift"))
	c.U = rapid.Uint64().Draw(t, "u") >> uint(rapid.IntRange(0, 63).Draw(t, "ushift"))
	switch c.Op {
	case "quote", "html_escape", "validate_utf8", "validate_utf8_fast":
		c.Src = []byte(gen.GoString(t, true, thorough()))
		if c.Op == "html_escape" && rapid.Bool().Draw(t, "htmljson") {
			c.Src = gen.ValidDoc(t, gen.DocOpt{Str: gen.StrOpt{MaxPieces: 4}, MaxDepth: 2})
		}
	case "unquote":
		c.Src = gen.StringBody(t, gen.Hostile)
		if c.Flags&1 != 0 && rapid.Bool().Draw(t, "dbl") {
			// doubly escaped body
			var b bytes.Buffer
			for _, ch := range gen.StringBody(t, gen.Hostile) {
				if ch == '\\' || ch == '"' {
					b.WriteByte('\\')
				}
				b.WriteByte(ch)
			}
			c.Src = b.Bytes()
		}
	case "lspace":
		n := rapid.IntRange(0, 100).Draw(t, "nsp")
		c.Src = bytes.Repeat([]byte{" \t\n\r"[rapid.IntRange(0, 3).Draw(t, "spc")]}, n)
		c.Src = append(c.Src, gen.RawBytes(t, 10)...)
	case "i64toa", "u64toa", "f64toa", "f32toa":
	case "vnumber", "vsigned", "vunsigned", "skip_number":
		if rapid.IntRange(0, 4).Draw(t, "badnum") == 0 {
			c.Src = []byte(gen.MalformedNumber(t))
		} else {
			c.Src = []byte(gen.NumberLit(t, gen.NumOpt{Huge: true}))
		}
		c.Src = append(c.Src, []byte{',', ' ', ']', '}', 'x', '"'}[rapid.IntRange(0, 5).Draw(t, "numtail")])
	default:
		strOpt := gen.StrOpt{LoneSurr: true}
		if rapid.IntRange(0, 2).Draw(t, "hostile") == 0 {
			strOpt = gen.Hostile
		}
		c.Src = gen.ValidDoc(t, gen.DocOpt{Str: strOpt, Wide: true, Num: gen.NumOpt{Huge: true}})
		if rapid.IntRange(0, 2).Draw(t, "mut") == 0 {
			c.Src, _ = gen.Mutate(t, c.Src)
		}
		if c.Op == "vstring" {
			c.Src = append(gen.StringBody(t, gen.Hostile), '"')
			if rapid.IntRange(0, 5).Draw(t, "unterminated") == 0 {
				c.Src = c.Src[:len(c.Src)-1]
			}
		}
		if c.Op == "skip_array" || c.Op == "skip_object" {
			c.P = 1 // these start after the opening bracket
		}
		if c.Op == "get_by_path" {
			n := rapid.IntRange(0, 3).Draw(t, "npath")
			for i := 0; i < n; i++ {
				if rapid.Bool().Draw(t, "idx") {
					c.Path = append(c.Path, fmt.Sprintf("#%d", rapid.IntRange(0, 5).Draw(t, "pi")))
				} else {
					c.Path = append(c.Path, gen.DefaultKeys[rapid.IntRange(0, 12).Draw(t, "pk")])
				}
			}
		}
	}
	outNeed := len(c.Src)*6 + 70
	switch rapid.IntRange(0, 3).Draw(t, "capkind") {
	case 0:
		c.Cap = outNeed
	case 1:
		c.Cap = rapid.IntRange(0, outNeed).Draw(t, "cap")
	case 2:
		c.Cap = rapid.IntRange(0, 40).Draw(t, "smallcap")
	default:
		c.Cap = len(c.Src) + rapid.IntRange(0, 64).Draw(t, "nearcap")
	}
	if isPrintableUTF8(c.Src) {
		c.Text = string(c.Src)
	}
	return c
}

type c13Out struct {
	ret   int
	p     int
	n     int
	bytes []byte
	st    [4]uint64
	sm    []int
}

func (o c13Out) String() string {
	return fmt.Sprintf("ret=%d p=%d n=%d out=%q state=%x sm=%v", o.ret, o.p, o.n, clipB(o.bytes), o.st, o.sm)
}

func (c *C13Case) exec(nat verifhook.Natives) (o c13Out) {
	// source with 64 spare bytes after it (same filler for both variants)
	buf := alignedCopy(c.Src, c.Align, 64, 0)
	s := bytesToString(buf)
	if len(buf) == 0 {
		s = ""
	}
	sp := unsafe.Pointer(unsafe.StringData(s))
	dst := make([]byte, c.Cap+64)
	for i := range dst {
		dst[i] = 0xEE
	}
	dp := unsafe.Pointer(&dst[0])
	var st verifhook.JsonState
	dbuf := make([]byte, 800)
	st.Dbuf = &dbuf[0]
	st.Dcap = 800
	p := c.P
	if len(s) == 0 {
		switch c.Op {
		case "quote", "html_escape", "validate_utf8", "validate_utf8_fast", "lspace":
			return o // sonic's own wrappers never call these with an empty source
		}
	}
	state := func() {
		o.st = [4]uint64{uint64(st.Vt), math.Float64bits(st.Dv), uint64(st.Iv), uint64(st.Ep)}
	}
	switch c.Op {
	case "quote":
		dn := c.Cap
		o.ret = nat.Quote(sp, len(s), dp, unsafe.Pointer(&dn), c.Flags)
		o.n = dn
		if dn >= 0 && dn <= len(dst) {
			o.bytes = append([]byte(nil), dst[:dn]...)
		}
	case "html_escape":
		dn := c.Cap
		o.ret = nat.HTMLEscape(sp, len(s), dp, unsafe.Pointer(&dn))
		o.n = dn
		if dn >= 0 && dn <= len(dst) {
			o.bytes = append([]byte(nil), dst[:dn]...)
		}
	case "unquote":
		// destination must hold len(src) bytes (unquote.IntoBytes' contract)
		d2 := make([]byte, len(s)+64)
		ep := -1
		o.ret = nat.Unquote(sp, len(s), unsafe.Pointer(&d2[0]), unsafe.Pointer(&ep), c.Flags)
		o.p = ep
		if o.ret >= 0 && o.ret <= len(d2) {
			o.bytes = append([]byte(nil), d2[:o.ret]...)
		}
	case "value":
		o.ret = nat.Value(sp, len(s), p, unsafe.Pointer(&st), c.Flags)
		state()
	case "skip_one", "validate_one", "skip_array", "skip_object":
		m := verifhook.NewStateMachine()
		switch c.Op {
		case "skip_one":
			o.ret = nat.SkipOne(unsafe.Pointer(&s), unsafe.Pointer(&p), unsafe.Pointer(m), c.Flags)
		case "validate_one":
			o.ret = nat.ValidateOne(unsafe.Pointer(&s), unsafe.Pointer(&p), unsafe.Pointer(m), c.Flags)
		case "skip_array":
			if len(s) == 0 {
				break
			}
			o.ret = nat.SkipArray(unsafe.Pointer(&s), unsafe.Pointer(&p), unsafe.Pointer(m), c.Flags)
		default:
			if len(s) == 0 {
				break
			}
			o.ret = nat.SkipObject(unsafe.Pointer(&s), unsafe.Pointer(&p), unsafe.Pointer(m), c.Flags)
		}
		o.p = p
		verifhook.FreeStateMachine(m)
	case "skip_one_fast":
		o.ret = nat.SkipOneFast(unsafe.Pointer(&s), unsafe.Pointer(&p))
		o.p = p
	case "get_by_path":
		m := verifhook.NewStateMachine()
		path := make([]interface{}, len(c.Path))
		for i, pe := range c.Path {
			if len(pe) > 1 && pe[0] == '#' {
				n := 0
				fmt.Sscanf(pe[1:], "%d", &n)
				path[i] = n
			} else {
				path[i] = pe
			}
		}
		o.ret = nat.GetByPath(unsafe.Pointer(&s), unsafe.Pointer(&p), unsafe.Pointer(&path), unsafe.Pointer(m))
		o.p = p
		verifhook.FreeStateMachine(m)
	case "validate_utf8":
		m := verifhook.NewStateMachine()
		m.Sp = 0
		o.ret = nat.ValidateUTF8(unsafe.Pointer(&s), unsafe.Pointer(&p), unsafe.Pointer(m))
		o.p = p
		if m.Sp >= 0 && m.Sp <= 4096 {
			o.sm = append([]int{m.Sp}, m.Vt[:m.Sp]...)
		}
		verifhook.FreeStateMachine(m)
	case "validate_utf8_fast":
		if len(s) == 0 {
			break
		}
		o.ret = nat.ValidateUTF8Fast(unsafe.Pointer(&s))
	case "i64toa":
		o.ret = nat.I64toa(dp, c.I)
		o.bytes = append([]byte(nil), dst[:clamp(o.ret, 0, 64)]...)
	case "u64toa":
		o.ret = nat.U64toa(dp, c.U)
		o.bytes = append([]byte(nil), dst[:clamp(o.ret, 0, 64)]...)
	case "f64toa":
		f := math.Float64frombits(c.U)
		if math.IsNaN(f) || math.IsInf(f, 0) {
			f = float64(c.I)
		}
		o.ret = nat.F64toa(dp, f)
		o.bytes = append([]byte(nil), dst[:clamp(o.ret, 0, 64)]...)
	case "f32toa":
		f := math.Float32frombits(uint32(c.U))
		if f != f || math.IsInf(float64(f), 0) {
			f = float32(c.I)
		}
		o.ret = nat.F32toa(dp, f)
		o.bytes = append([]byte(nil), dst[:clamp(o.ret, 0, 64)]...)
	case "lspace":
		o.ret = nat.Lspace(sp, len(s), 0)
	case "skip_number":
		o.ret = nat.SkipNumber(unsafe.Pointer(&s), unsafe.Pointer(&p))
		o.p = p
	case "vnumber":
		nat.Vnumber(unsafe.Pointer(&s), unsafe.Pointer(&p), unsafe.Pointer(&st))
		o.p = p
		state()
	case "vsigned":
		nat.Vsigned(unsafe.Pointer(&s), unsafe.Pointer(&p), unsafe.Pointer(&st))
		o.p = p
		state()
	case "vunsigned":
		nat.Vunsigned(unsafe.Pointer(&s), unsafe.Pointer(&p), unsafe.Pointer(&st))
		o.p = p
		state()
	case "vstring":
		nat.Vstring(unsafe.Pointer(&s), unsafe.Pointer(&p), unsafe.Pointer(&st), c.Flags)
		o.p = p
		state()
	}
	// the filler after the destination capacity must be untouched
	for i := c.Cap; i < len(dst); i++ {
		if dst[i] != 0xEE && (c.Op == "quote" || c.Op == "html_escape") {
			o.sm = append(o.sm, -1000000-i) // marks an overrun, compared and reported below
			break
		}
	}
	if !bytes.Equal(buf, c.Src) {
		o.sm = append(o.sm, -2000000)
	}
	return o
}

func clamp(v, lo, hi int) int {
	if v < lo {
		return lo
	}
	if v > hi {
		return hi
	}
	return v
}

var c13WorkersChecked bool

func (c *C13Case) runAPI() (res stat.Result) {
	res.Classes = append(res.Classes, "op:api", "api:"+c.SubProp)
	mk, ok := registry[c.SubProp]
	if !ok {
		res.Err = fmt.Errorf("harness: unknown sub property %s", c.SubProp)
		return
	}
	sub := mk()
	if err := json.Unmarshal(c.Sub, sub); err != nil {
		res.Err = fmt.Errorf("harness: %v", err)
		return
	}
	wa, err := getWorker("SONIC_MODE=auto")
	if err != nil {
		panic("harness: cannot start worker: " + err.Error())
	}
	ws, err := getWorker("SONIC_MODE=noavx2")
	if err != nil {
		panic("harness: cannot start worker: " + err.Error())
	}
	if !c13WorkersChecked {
		ia, _ := wa.ask("INFO", &InfoCase{})
		is, _ := ws.ask("INFO", &InfoCase{})
		if !strings.Contains(ia, "avx2=true") || !strings.Contains(is, "avx2=false") {
			panic("harness: SONIC_MODE did not select the expected routines: " + ia + " / " + is)
		}
		c13WorkersChecked = true
	}
	res.Sub = 2
	ta, ea := wa.ask(c.SubProp, sub)
	ts, es := ws.ask(c.SubProp, sub)
	for _, e := range []error{ea, es} {
		if _, ok := e.(errWorkerTimeout); ok {
			res.Inconclusive = "C13 worker: " + e.Error()
			return
		}
	}
	if ea != nil || es != nil {
		res.Err = fmt.Errorf("%s case: avx2 worker: %v; sse worker: %v", c.SubProp, ea, es)
		return
	}
	res.NonTrivial = len(ta) > 12
	if ta != ts {
		res.Err = fmt.Errorf("%s case gives different results under SONIC_MODE=auto and SONIC_MODE=noavx2:\n avx2: %s\n sse:  %s", c.SubProp, clipS(ta), clipS(ts))
	}
	return
}

func (c *C13Case) Run() (res stat.Result) {
	if c.Op == "api" {
		return c.runAPI()
	}
	if !c13Loaded {
		c13A, c13S = verifhook.LoadNatives()
		c13Loaded = true
	}
	a := c.exec(c13A)
	s := c.exec(c13S)
	res.Classes = append(res.Classes, "op:"+c.Op)
	res.NonTrivial = len(c.Src) >= 32 || (c.Cap < len(c.Src) && (c.Op == "quote" || c.Op == "html_escape")) || c.Op[len(c.Op)-3:] == "toa"
	if len(c.Src) >= 64 {
		res.Classes = append(res.Classes, "src>=64")
	}
	if a.String() != s.String() || !bytes.Equal(a.bytes, s.bytes) {
		res.Err = fmt.Errorf("%s(flags %#x, cap %d, p %d) on %q:\n avx2: %s\n sse:  %s", c.Op, c.Flags, c.Cap, c.P, clipB(c.Src), a, s)
		return
	}
	for _, x := range a.sm {
		if x <= -1000000 && x > -2000000 {
			res.Err = fmt.Errorf("%s wrote past the destination capacity %d (offset %d)", c.Op, c.Cap, -x-1000000)
		}
		if x == -2000000 {
			res.Err = fmt.Errorf("%s modified its source", c.Op)
		}
	}
	return
}
