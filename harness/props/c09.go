package props

import (
	"encoding/json"
	"fmt"
	"reflect"
	"strings"
	"unsafe"

	"github.com/bytedance/sonic"
	"github.com/bytedance/sonic/option"
	"pgregory.net/rapid"
	"verif/harness/gen"
	"verif/harness/ref"
	"verif/harness/stat"
	"verif/harness/tv"
)

// C09Call is one codec call as data.
type C09Call struct {
	Op    string `json:"op"`    // marshal | unmarshal | pretouch | pretouchmany | filler
	Types []int  `json:"types"` // indexes into the case's type list
	Shape int    `json:"shape"` // how the value is presented: 0 value, 1 pointer, 2 inside interface slice, 3 map element, 4 nested 5 levels deep
	Inl   int    `json:"inl"`   // WithCompileMaxInlineDepth (0 = default)
	Rec   int    `json:"rec"`   // WithCompileRecursiveDepth
	N     int    `json:"n"`     // filler: number of cheap types to compile
}

// C09Case: probe calls whose results must not depend on what the process did before.
type C09Case struct {
	Types   []TypedValue `json:"types"`
	Probe   []C09Call    `json:"probe"`
	PrelA   []C09Call    `json:"prel_a"`
	PrelB   []C09Call    `json:"prel_b"`
	RunOnly string       `json:"run_only,omitempty"` // set by the parent for the worker: "A", "B" or "-" (no prelude)
	Env     int          `json:"env,omitempty"`      // worker environment: see c09Envs
}

// c09Envs are the back-end selections the three workers of a case share.
var c09Envs = [][]string{nil, {"SONIC_USE_OPTDEC=1"}, {"SONIC_USE_OPTDEC=1", "SONIC_USE_FASTMAP=1"}, {"SONIC_ENCODER_USE_VM=1"}, {"GOGC=off"}, {"GOGC=off", "SONIC_USE_OPTDEC=1"}}

func init() { register("C09", func() Case { return &C09Case{} }) }

var c09FixedTypes = []string{"DupA", "DupB", "DupAU", "DupBU", "Tree", "List", "Mutual", "D1", "Outer3", "Wide", "MPtr", "TPtr"}

func drawC09(t *rapid.T) Case {
	c := &C09Case{}
	k := rapid.IntRange(1, 3).Draw(t, "nprobe")
	for i := 0; i < k; i++ {
		tvv, _, v := drawTypedValue(t, gen.TypeOpt{Flav: gen.FlavRoundTrip, Fresh: true, MaxDepth: 3, MaxFields: 5}, gen.ValOpt{RoundTrip: true, HTMLFree: true})
		// -0.0 under omitempty is a listed C03 finding; it is excluded here by construction
		vv := copyValue(v)
		flipAllNegZero(vv)
		tvv.V, _ = json.Marshal(tv.Dump(vv))
		c.Types = append(c.Types, tvv)
	}
	// fixed catalogue types follow the generated ones
	for _, name := range c09FixedTypes {
		spec := tv.TypeSpec{K: "cat", Name: name}
		ty, _ := tv.Build(spec)
		v := copyValue(gen.Value(t, ty, gen.ValOpt{RoundTrip: true, HTMLFree: true}))
		flipAllNegZero(v)
		b, _ := json.Marshal(tv.Dump(v))
		c.Types = append(c.Types, TypedValue{T: spec, V: b})
	}
	nt := len(c.Types)
	call := func(probe bool) C09Call {
		ops := []string{"marshal", "unmarshal", "marshal", "unmarshal", "pretouch", "pretouchmany", "filler", "hostile", "hostile"}
		if probe {
			ops = ops[:4]
		}
		cl := C09Call{Op: ops[rapid.IntRange(0, len(ops)-1).Draw(t, "op")]}
		cl.Shape = rapid.IntRange(0, 4).Draw(t, "shape")
		cl.Inl = []int{0, 1, 2, 3, 5}[rapid.IntRange(0, 4).Draw(t, "inl")]
		cl.Rec = []int{0, 1, 3}[rapid.IntRange(0, 2).Draw(t, "rec")]
		n := 1
		if cl.Op == "pretouchmany" {
			n = rapid.IntRange(1, 5).Draw(t, "many")
		}
		for i := 0; i < n; i++ {
			if probe {
				cl.Types = append(cl.Types, rapid.IntRange(0, nt-1).Draw(t, "pt"))
			} else {
				cl.Types = append(cl.Types, rapid.IntRange(0, nt-1).Draw(t, "t"))
			}
		}
		if cl.Op == "hostile" {
			cl.N = rapid.IntRange(1, 127).Draw(t, "hostilemask")
		}
		if cl.Op == "filler" {
			cl.N = []int{10, 100, 500, 2100}[rapid.IntRange(0, 3).Draw(t, "fillern")]
			if !thorough() && cl.N > 500 {
				cl.N = 300
			}
		}
		return cl
	}
	np := rapid.IntRange(1, 4).Draw(t, "nprobecalls")
	for i := 0; i < np; i++ {
		c.Probe = append(c.Probe, call(true))
	}
	for i, n := 0, rapid.IntRange(0, 5).Draw(t, "na"); i < n; i++ {
		c.PrelA = append(c.PrelA, call(false))
	}
	for i, n := 0, rapid.IntRange(0, 5).Draw(t, "nb"); i < n; i++ {
		c.PrelB = append(c.PrelB, call(false))
	}
	c.Env = []int{0, 0, 0, 1, 1, 2, 3, 4, 4, 5}[rapid.IntRange(0, 9).Draw(t, "env")]
	// one case in three: three struct types whose type hash selects the same bucket of the 4096-bucket program
	// caches (the last bucket, the first one, or one in the middle), each used by value and by pointer in the
	// probe: collisions and probe sequences that wrap around the table
	if rapid.IntRange(0, 2).Draw(t, "collide") == 0 {
		bucket := []uint32{4095, 4095, 0, 1234}[rapid.IntRange(0, 3).Draw(t, "bucket")]
		for _, spec := range c09Colliding(bucket, 3) {
			ty, _ := tv.Build(spec)
			v := copyValue(gen.Value(t, ty, gen.ValOpt{RoundTrip: true, HTMLFree: true}))
			b, _ := json.Marshal(tv.Dump(v))
			c.Types = append(c.Types, TypedValue{T: spec, V: b})
			idx := len(c.Types) - 1
			c.Probe = append(c.Probe, C09Call{Op: "marshal", Types: []int{idx}, Shape: rapid.IntRange(0, 1).Draw(t, "cshape")},
				C09Call{Op: "unmarshal", Types: []int{idx}})
		}
	}
	return c
}

// typeHash reads the hash field of the runtime type descriptor (abi.Type: Size_, PtrBytes, Hash).
func typeHash(t reflect.Type) uint32 {
	e := (*[2]unsafe.Pointer)(unsafe.Pointer(&t))
	return *(*uint32)(unsafe.Add(e[1], 2*unsafe.Sizeof(uintptr(0))))
}

var c09CollideCache = map[uint32][]tv.TypeSpec{}

// c09Colliding returns n struct types struct{ F<i> int64 `json:"f"`; G string `json:"g"` } whose hash & 4095 == bucket.
func c09Colliding(bucket uint32, n int) []tv.TypeSpec {
	if got := c09CollideCache[bucket]; len(got) >= n {
		return got[:n]
	}
	var out []tv.TypeSpec
	for i := 0; len(out) < n && i < 400000; i++ {
		spec := tv.TypeSpec{K: "struct", Fields: []tv.FieldSpec{
			{Name: fmt.Sprintf("F%d", i), Tag: `json:"f"`, T: tv.TypeSpec{K: "int64"}},
			{Name: "G", Tag: `json:"g"`, T: tv.TypeSpec{K: "string"}},
		}}
		ty, err := tv.Build(spec)
		if err != nil {
			continue
		}
		if typeHash(ty)&4095 == bucket {
			out = append(out, spec)
		}
	}
	c09CollideCache[bucket] = out
	return out
}

type c09N5 struct {
	A struct {
		B struct {
			C struct{ D struct{ V interface{} } }
		}
	}
}

func c09Present(v reflect.Value, shape int) interface{} {
	switch shape {
	case 1:
		return v.Addr().Interface()
	case 2:
		return []interface{}{v.Interface(), v.Addr().Interface()}
	case 3:
		return map[string]interface{}{"k": v.Interface()}
	case 4:
		var n c09N5
		n.A.B.C.D.V = v.Interface()
		return n
	}
	return v.Interface()
}

// c09Exec runs one call and returns its transcript line.
func (c *C09Case) c09Exec(cl C09Call, tys []reflect.Type, vals []reflect.Value) string {
	var opts []option.CompileOption
	if cl.Inl > 0 {
		opts = append(opts, option.WithCompileMaxInlineDepth(cl.Inl))
	}
	if cl.Rec > 0 {
		opts = append(opts, option.WithCompileRecursiveDepth(cl.Rec))
	}
	switch cl.Op {
	case "marshal":
		i := cl.Types[0]
		b, err := sonic.ConfigStd.Marshal(c09Present(vals[i], cl.Shape))
		if err != nil {
			return "marshal err"
		}
		return "marshal " + string(b)
	case "unmarshal":
		i := cl.Types[0]
		doc, err := json.Marshal(vals[i].Interface())
		if err != nil {
			return "unmarshal harness-err"
		}
		dst := reflect.New(tys[i])
		if cl.Shape == 1 {
			// decode through a pointer to pointer
			pp := reflect.New(reflect.PtrTo(tys[i]))
			if err := sonic.ConfigStd.Unmarshal(doc, pp.Interface()); err != nil {
				return "unmarshal err"
			}
			if pp.Elem().IsNil() {
				return "unmarshal nil"
			}
			return "unmarshal " + dumpValue(pp.Elem().Elem())
		}
		if err := sonic.ConfigStd.Unmarshal(doc, dst.Interface()); err != nil {
			return "unmarshal err"
		}
		return "unmarshal " + dumpValue(dst.Elem())
	case "pretouch":
		ty := tys[cl.Types[0]]
		if cl.Shape == 1 {
			ty = reflect.PtrTo(ty)
		}
		return fmt.Sprint("pretouch ", sonic.Pretouch(ty, opts...) != nil)
	case "pretouchmany":
		var ts []reflect.Type
		for _, i := range cl.Types {
			ts = append(ts, tys[i])
		}
		return fmt.Sprint("pretouchmany ", sonic.PretouchMany(ts, opts...) != nil)
	case "hostile":
		// calls that leave pooled parsers, buffers and stacks in unusual states: repaired UTF-8, errors in
		// the middle of a document, big outputs, escapes, HTML escaping, ast use
		var sink interface{}
		if cl.N&1 != 0 {
			sonic.ConfigStd.Unmarshal([]byte("{\"k\":\"a\xffb\",\"e\":\"x\\ny\"}"), &sink)
			var m map[string]string
			sonic.ConfigStd.Unmarshal([]byte("{\"k\xc0\":\"\xe4\xb8\"}"), &m)
		}
		if cl.N&2 != 0 {
			for _, d := range []string{`{"a":[1,2,{"b":"c\\u00e9"`, `[[[[[[1,`, `{"a":1,"b":tru}`, `"abc\\`, `{"k":"v"}}`, "[1e999]", `{"a":"\\ud800"}`} {
				sonic.ConfigStd.Unmarshal([]byte(d), &sink)
				var st struct {
					A []interface{} `json:"a"`
					B string        `json:"b"`
				}
				sonic.Unmarshal([]byte(d), &st)
			}
		}
		if cl.N&4 != 0 {
			sonic.ConfigStd.Marshal([]interface{}{"bad\xffutf8", "<html>&", strings.Repeat("\xc0x", 40)})
			sonic.Marshal(map[string]interface{}{"\xff": "\xfe", "<": ">"})
		}
		if cl.N&8 != 0 {
			big := `{"big":"` + strings.Repeat("abc\\n", 20000) + `","n":[` + strings.Repeat("1.5,", 3000) + `2]}`
			sonic.Unmarshal([]byte(big), &sink)
			sonic.Marshal(sink)
		}
		if cl.N&16 != 0 {
			if n, err := sonic.Get([]byte(`{"a":[1,{"b":"\\u00e9\\n"}],"c":null}`), "a", 1, "b"); err == nil {
				n.String()
				n.Raw()
			}
			sonic.Valid([]byte(`{"a":[1,2`))
		}
		if cl.N&32 != 0 {
			var n json.Number
			sonic.ConfigStd.UnmarshalFromString(`123456789012345678901234567890e-5`, &n)
			var f float32
			sonic.UnmarshalString(`3.4028236e38`, &f)
			var u uint8
			sonic.UnmarshalString(`256`, &u)
		}
		if cl.N&64 != 0 {
			// a burst of rejected documents (no collection in between is likely: they allocate little):
			// whatever a failed call leaves behind in pooled state adds up
			var typed struct {
				Items []struct {
					Tags []string                       `json:"tags"`
					Attr map[string][]int               `json:"attr"`
					Sub  map[string]struct{ V [][]int } `json:"sub"`
				} `json:"items"`
			}
			var deep [][][][][]int
			var mm map[string]map[string][]map[string]int
			for i := 0; i < 900; i++ {
				sonic.Unmarshal([]byte(`{"items":[{"tags":["a","b"],"attr":{"k":[1,2`), &typed)
				sonic.Unmarshal([]byte(`{"items":[{"sub":{"x":{"V":[[1,2],[3,`), &typed)
				sonic.Unmarshal([]byte(`[[[[[1,2],[3]],[[`), &deep)
				sonic.Unmarshal([]byte(`{"a":{"b":[{"c":1},{"d":`), &mm)
				sonic.ConfigStd.Unmarshal([]byte(`{"items":[{"tags":["a",tru`), &typed)
			}
		}
		return "hostile ok"
	case "filler":
		for i := 0; i < cl.N; i++ {
			ft := reflect.StructOf([]reflect.StructField{{Name: fmt.Sprintf("Filler%d", i), Type: reflect.TypeOf(0)}})
			v := reflect.New(ft).Elem()
			v.Field(0).SetInt(int64(i))
			if _, err := sonic.Marshal(v.Interface()); err != nil {
				return "filler err"
			}
			if cl.Shape%2 == 0 {
				sonic.Unmarshal([]byte(`{}`), reflect.New(ft).Interface())
			}
		}
		return "filler ok"
	}
	return "?"
}

// Transcript runs (in a fresh worker) the selected prelude and then the probe calls.
func (c *C09Case) Transcript() string {
	tys := make([]reflect.Type, len(c.Types))
	vals := make([]reflect.Value, len(c.Types))
	for i := range c.Types {
		ty, v, err := c.Types[i].Materialise()
		if err != nil {
			return "harness:" + err.Error()
		}
		tys[i], vals[i] = ty, v
	}
	var prel []C09Call
	switch c.RunOnly {
	case "A":
		prel = c.PrelA
	case "B":
		prel = c.PrelB
	}
	for _, cl := range prel {
		c.c09Exec(cl, tys, vals)
	}
	var sb strings.Builder
	for _, cl := range c.Probe {
		sb.WriteString(c.c09Exec(cl, tys, vals))
		sb.WriteString(" ;; ")
	}
	return sb.String()
}

// c09Std is encoding/json's transcript of the probe.
func (c *C09Case) c09Std() ([]string, error) {
	var out []string
	for _, cl := range c.Probe {
		ty, v, err := c.Types[cl.Types[0]].Materialise()
		if err != nil {
			return nil, err
		}
		_ = ty
		if cl.Op == "marshal" {
			b, err := json.Marshal(c09Present(v, cl.Shape))
			if err != nil {
				out = append(out, "marshal err")
			} else {
				out = append(out, "marshal "+string(b))
			}
		} else {
			out = append(out, "")
		}
	}
	return out, nil
}

func (c *C09Case) Run() (res stat.Result) {
	res.Sub = 3
	ask := func(which string) (string, error) {
		w, err := startWorker(append([]string{"VERIF_C09=" + which}, c09Envs[c.Env]...))
		if err != nil {
			panic("harness: cannot start worker: " + err.Error())
		}
		defer w.stop()
		cc := *c
		cc.RunOnly = which
		return w.ask("C09", &cc)
	}
	t0, e0 := ask("-")
	ta, ea := ask("A")
	tb, eb := ask("B")
	res.NonTrivial = len(c.PrelA)+len(c.PrelB) > 0
	res.Classes = append(res.Classes, fmt.Sprintf("env:%v", c09Envs[c.Env]))
	for _, cl := range append(append([]C09Call{}, c.PrelA...), c.PrelB...) {
		res.Classes = append(res.Classes, "prelude:"+cl.Op)
		if cl.Op == "filler" && cl.N >= 2000 {
			res.Classes = append(res.Classes, "rehash")
		}
		if cl.Op == "pretouchmany" {
			names := map[string]bool{}
			for _, i := range cl.Types {
				ty, _ := tv.Build(c.Types[i].T)
				if names[ty.String()] {
					res.Classes = append(res.Classes, "pretouch-batch-with-dup-names")
				}
				names[ty.String()] = true
			}
		}
	}
	for i, e := range []error{e0, ea, eb} {
		if e != nil {
			if _, ok := e.(errWorkerTimeout); ok {
				res.Inconclusive = "C09 worker: " + e.Error()
				return
			}
			which := []string{"no prelude", "prelude A", "prelude B"}[i]
			if id := c09Classify(c, e.Error()); id != "" {
				res.Known = append(res.Known, id)
				return
			}
			res.Err = fmt.Errorf("probe after %s: %v", which, e)
			return
		}
	}
	if t0 != ta || t0 != tb {
		res.Err = fmt.Errorf("probe results depend on history:\n no prelude: %s\n prelude A:  %s\n prelude B:  %s", clipS(t0), clipS(ta), clipS(tb))
		return
	}
	// and they equal encoding/json
	std, err := c.c09Std()
	if err == nil {
		parts := strings.Split(t0, " ;; ")
		for i, want := range std {
			if want == "" || i >= len(parts) {
				continue
			}
			if strings.HasPrefix(want, "marshal ") && strings.HasPrefix(parts[i], "marshal ") && want != "marshal err" && parts[i] != "marshal err" {
				if d := ref.TokensEqual([]byte(want[8:]), []byte(parts[i][8:]), true); d != "" {
					res.Err = fmt.Errorf("probe call %d differs from encoding/json: %s\n sonic: %s\n json:  %s", i, d, clipS(parts[i]), clipS(want))
					return
				}
			}
		}
	}
	return
}

// c09Classify maps a worker death to a listed known finding.
func c09Classify(c *C09Case, detail string) string {
	return ""
}
