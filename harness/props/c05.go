package props

import (
	"encoding/json"
	"fmt"
	"reflect"
	"runtime/debug"
	"strings"
	"sync"

	"github.com/bytedance/sonic"
	"github.com/bytedance/sonic/ast"
	"github.com/bytedance/sonic/decoder"
	"github.com/bytedance/sonic/encoder"
	"github.com/bytedance/sonic/unquote"
	sutf8 "github.com/bytedance/sonic/utf8"
	"github.com/bytedance/sonic/verifhook"
	"pgregory.net/rapid"
	"verif/harness/cat"
	"verif/harness/gen"
	"verif/harness/stat"
)

// C05Case: one input handed to one entry point at several memory placements.
type C05Case struct {
	Data   []byte `json:"data"`
	Text   string `json:"text,omitempty"`
	Entry  int    `json:"entry"`
	Cont   []byte `json:"cont"`  // adversarial continuation placed directly after the input (P3)
	Align  int    `json:"align"` // P2 alignment
	Source string `json:"source"`
}

func init() { register("C05", func() Case { return &C05Case{} }) }

type c05Entry struct {
	name string
	// obs returns a one-line observation of the call's result; the input must not be retained
	obs func(s string, b []byte) string
}

type c05Disallow struct{}

func errStr(e error) string {
	if e == nil {
		return "nil"
	}
	// positions are part of the observable result; the quoted source excerpt is not compared
	// (it legitimately shows neighbouring bytes of the input only)
	msg := e.Error()
	if i := strings.Index(msg, "\n"); i >= 0 {
		msg = msg[:i]
	}
	return "err(" + msg + ")"
}

func decodeObs(api sonic.API, mk func() interface{}) func(string, []byte) string {
	return func(s string, b []byte) string {
		v := mk()
		err := api.UnmarshalFromString(s, v)
		if err != nil {
			return errStr(err)
		}
		out, _ := json.Marshal(reflect.ValueOf(v).Elem().Interface())
		return "ok " + string(out)
	}
}

var c05Entries []c05Entry

func init() {
	disallow := sonic.Config{DisallowUnknownFields: true}.Froze()
	std := sonic.ConfigStd
	def := sonic.ConfigDefault
	c05Entries = []c05Entry{
		{"ValidString", func(s string, b []byte) string { return fmt.Sprint(sonic.ValidString(s)) }},
		{"Valid([]byte)", func(s string, b []byte) string { return fmt.Sprint(sonic.Valid(b)) }},
		{"encoder.Valid", func(s string, b []byte) string { ok, p := encoder.Valid(b); return fmt.Sprint(ok, p) }},
		{"default.UnmarshalString(interface{})", decodeObs(def, func() interface{} { return new(interface{}) })},
		{"std.UnmarshalString(interface{})", decodeObs(std, func() interface{} { return new(interface{}) })},
		{"default.UnmarshalString(string)", decodeObs(def, func() interface{} { return new(string) })},
		{"default.UnmarshalString(float64)", decodeObs(def, func() interface{} { return new(float64) })},
		{"default.UnmarshalString([]int)", decodeObs(def, func() interface{} { return new([]int) })},
		{"default.UnmarshalString(map[string]string)", decodeObs(def, func() interface{} { return new(map[string]string) })},
		{"default.UnmarshalString(struct{A int})", decodeObs(def, func() interface{} { return new(c02Skip) })},
		{"std.UnmarshalString(cat.StrOpt)", decodeObs(std, func() interface{} { return new(cat.StrOpt) })},
		{"default.UnmarshalString(RawMessage)", decodeObs(def, func() interface{} { return new(json.RawMessage) })},
		{"default.UnmarshalString(bool)", decodeObs(def, func() interface{} { return new(bool) })},
		{"disallow.UnmarshalString(struct{})", decodeObs(disallow, func() interface{} { return new(c05Disallow) })},
		{"disallow.UnmarshalString([]struct{})", decodeObs(disallow, func() interface{} { return new([]c05Disallow) })},
		{"optdec.UnmarshalString(interface{})", func(s string, b []byte) string {
			verifhook.SetDecoder(true, false)
			defer verifhook.SetDecoder(false, false)
			return decodeObs(def, func() interface{} { return new(interface{}) })(s, b)
		}},
		{"optdec.UnmarshalString(struct)", func(s string, b []byte) string {
			verifhook.SetDecoder(true, false)
			defer verifhook.SetDecoder(false, false)
			return decodeObs(def, func() interface{} { return new(cat.EmbA) })(s, b)
		}},
		{"GetFromString()", func(s string, b []byte) string {
			n, err := sonic.GetFromString(s)
			if err != nil {
				return errStr(err)
			}
			if e := n.LoadAll(); e != nil {
				return "load-" + errStr(e)
			}
			r, e := n.Raw()
			return "ok " + strings.TrimSpace(r) + " " + errStr(e)
		}},
		{"GetFromString(a,0)", func(s string, b []byte) string {
			n, err := sonic.GetFromString(s, "a", 0)
			if err != nil {
				return errStr(err)
			}
			r, e := n.Raw()
			return "ok " + strings.TrimSpace(r) + " " + errStr(e)
		}},
		{"Get([]byte,1)", func(s string, b []byte) string {
			n, err := sonic.Get(b, 1)
			if err != nil {
				return errStr(err)
			}
			r, e := n.Raw()
			return "ok " + strings.TrimSpace(r) + " " + errStr(e)
		}},
		{"ast.NewRaw", func(s string, b []byte) string {
			n := ast.NewRaw(s)
			if e := n.Check(); e != nil {
				return errStr(e)
			}
			v, e := n.Interface()
			out, _ := json.Marshal(v)
			return "ok " + string(out) + " " + errStr(e)
		}},
		{"ast.Loads", func(s string, b []byte) string {
			p, v, e := ast.Loads(s)
			out, _ := json.Marshal(v)
			return fmt.Sprint(p, " ", string(out), " ", errStr(e))
		}},
		{"ast.Preorder", func(s string, b []byte) string {
			vis := &c14Visitor{}
			e := ast.Preorder(s, vis, nil)
			return fmt.Sprint(len(vis.ev), " ", errStr(e))
		}},
		{"decoder.Skip", func(s string, b []byte) string { a, e := decoder.Skip(b); return fmt.Sprint(a, e) }},
		{"encoder.Quote", func(s string, b []byte) string { return encoder.Quote(s) }},
		{"std.Marshal(string)", func(s string, b []byte) string { o, e := std.Marshal(s); return string(o) + errStr(e) }},
		{"encoder.HTMLEscape", func(s string, b []byte) string { return string(encoder.HTMLEscape(nil, b)) }},
		{"unquote.String", func(s string, b []byte) string { r, e := unquote.String(s); return fmt.Sprint(r, " ", int(e)) }},
		{"utf8.ValidateString", func(s string, b []byte) string { return fmt.Sprint(sutf8.ValidateString(s)) }},
		{"utf8.Validate", func(s string, b []byte) string { return fmt.Sprint(sutf8.Validate(b)) }},
		{"utf8.CorrectWith", func(s string, b []byte) string { return string(sutf8.CorrectWith(nil, b, "?")) }},
		// (new entries are appended: saved cases name entries by index)
		{"default.UnmarshalString(cat.StrOpt)", decodeObs(def, func() interface{} { return new(cat.StrOpt) })},
		{"default.UnmarshalString(cat.Omit)", decodeObs(def, func() interface{} { return new(cat.Omit) })},
		{"default.UnmarshalString(cat.Wide)", decodeObs(def, func() interface{} { return new(cat.Wide) })},
		{"optdec.UnmarshalString(cat.StrOpt)", func(s string, b []byte) string {
			verifhook.SetDecoder(true, false)
			defer verifhook.SetDecoder(false, false)
			return decodeObs(def, func() interface{} { return new(cat.StrOpt) })(s, b)
		}},
	}
}

// c05EntryTypes: destination types of the typed decode entries (documents are then also generated for the type).
var c05EntryTypes = map[string]reflect.Type{
	"default.UnmarshalString([]int)":             reflect.TypeOf([]int(nil)),
	"default.UnmarshalString(map[string]string)": reflect.TypeOf(map[string]string(nil)),
	"default.UnmarshalString(struct{A int})":     reflect.TypeOf(c02Skip{}),
	"std.UnmarshalString(cat.StrOpt)":            reflect.TypeOf(cat.StrOpt{}),
	"default.UnmarshalString(cat.StrOpt)":        reflect.TypeOf(cat.StrOpt{}),
	"default.UnmarshalString(cat.Omit)":          reflect.TypeOf(cat.Omit{}),
	"default.UnmarshalString(cat.Wide)":          reflect.TypeOf(cat.Wide{}),
	"optdec.UnmarshalString(struct)":             reflect.TypeOf(cat.EmbA{}),
	"optdec.UnmarshalString(cat.StrOpt)":         reflect.TypeOf(cat.StrOpt{}),
}

var c05Conts = []string{`,3]`, `c"`, `34`, `e`, `41"`, `1`, `"`, `}`, `]`, `:1}`, `.5`, `e5`, `0`, `ull`, `rue`, `alse`, `\`, `\"x"`, ` x`, `,`, `{"a":[9,{"b":1}],"b":2}`, `":":"::`}

func drawC05(t *rapid.T) Case {
	c := &C05Case{}
	c.Entry = rapid.IntRange(0, len(c05Entries)-1).Draw(t, "entry")
	name := c05Entries[c.Entry].name
	strOpt := gen.StrOpt{LoneSurr: true}
	if rapid.IntRange(0, 2).Draw(t, "hostile") == 0 {
		strOpt = gen.Hostile
	}
	switch {
	case strings.HasPrefix(name, "encoder.Quote"), strings.HasPrefix(name, "std.Marshal"), strings.HasPrefix(name, "utf8."), name == "encoder.HTMLEscape":
		c.Data = []byte(gen.GoString(t, true, false))
		c.Source = "gostring"
	case name == "unquote.String":
		c.Data = gen.StringBody(t, gen.Hostile)
		c.Source = "literal-body"
	default:
		if ty, ok := c05EntryTypes[name]; ok && rapid.Bool().Draw(t, "fordest") {
			// a document made for the destination type (fields and option payloads are reached), cut anywhere
			c.Data = gen.DocFor(t, ty, gen.DocForOpt{Str: strOpt, Perturb: 10})
			c.Source = "for-destination"
			if rapid.IntRange(0, 2).Draw(t, "trunc2") != 0 && len(c.Data) > 0 {
				c.Data = c.Data[:rapid.IntRange(0, len(c.Data)).Draw(t, "cut2")]
				c.Source = "for-destination-truncated"
			}
			break
		}
		switch rapid.IntRange(0, 5).Draw(t, "docsrc") {
		case 0:
			// short inputs: every prefix of a few tokens
			toks := []string{"true", "false", "null", "-0", "-0.5", "1e5", `"ab"`, "[1]", `{"a":1}`, "12", "-", "[", "{", `"`, `{"a"`, `{"a":`, `[1,`, "0", "-1"}
			tk := toks[rapid.IntRange(0, len(toks)-1).Draw(t, "shorttok")]
			c.Data = []byte(tk[:rapid.IntRange(0, len(tk)).Draw(t, "shortcut")])
			c.Source = "short"
		case 1:
			c.Data = gen.RawBytes(t, 40)
			c.Source = "raw"
		default:
			c.Data = gen.ValidDoc(t, gen.DocOpt{Str: strOpt, Wide: true, KeyPool: []string{"a", "b", "A", "k"}})
			c.Source = "valid"
			if rapid.IntRange(0, 2).Draw(t, "mut") == 0 {
				var k string
				c.Data, k = gen.Mutate(t, c.Data)
				c.Source = "mutated:" + k
			}
			if rapid.IntRange(0, 3).Draw(t, "trunc") == 0 && len(c.Data) > 0 {
				c.Data = c.Data[:rapid.IntRange(0, len(c.Data)).Draw(t, "cut")]
				c.Source = "truncated"
			}
		}
	}
	c.Cont = []byte(c05Conts[rapid.IntRange(0, len(c05Conts)-1).Draw(t, "cont")])
	c.Align = rapid.IntRange(0, 63).Draw(t, "align")
	if isPrintableUTF8(c.Data) {
		c.Text = string(c.Data)
	}
	return c
}

const c05GuardSize = 1 << 20

var (
	c05GuardMu sync.Mutex
	c05Guard   *guarded
)

func (c *C05Case) Run() (res stat.Result) {
	debug.SetPanicOnFault(true)
	e := c05Entries[c.Entry]
	res.Classes = append(res.Classes, "entry:"+e.name, "src:"+c.Source, fmt.Sprintf("len%%32=%d", len(c.Data)%32))
	res.NonTrivial = len(c.Data) >= 1
	observe := func(place string, s string, b []byte) (out string, fault interface{}) {
		defer func() {
			if p := recover(); p != nil {
				fault = p
			}
		}()
		return e.obs(s, b), nil
	}
	// P0: plain heap copy (followed by whatever the allocator put there, at least zero padding)
	p0 := append(make([]byte, 0, len(c.Data)+1), c.Data...)
	base, f0 := observe("heap", bytesToString(p0), p0[:len(p0):len(p0)])
	res.Sub++
	if f0 != nil {
		res.Err = fmt.Errorf("%s(%q) on a heap copy panicked: %v", e.name, clipB(c.Data), f0)
		return
	}
	report := func(place, got string, fault interface{}) bool {
		res.Sub++
		if fault != nil {
			if id := c05Classify(c, e.name, true); id != "" {
				res.Known = append(res.Known, id)
				return true
			}
			res.Err = fmt.Errorf("%s(%q) placed %s faulted (read outside the input): %v", e.name, clipB(c.Data), place, fault)
			return false
		}
		if got != base {
			if id := c05Classify(c, e.name, false); id != "" {
				res.Known = append(res.Known, id)
				return true
			}
			res.Err = fmt.Errorf("%s(%q) gives a different result when placed %s:\n heap: %s\n here: %s", e.name, clipB(c.Data), place, clipS(base), clipS(got))
			return false
		}
		return true
	}
	// P2: another alignment, followed by filler
	p2 := alignedCopy(c.Data, c.Align, 64, 0x5a)
	g2, f2 := observe("aligned", bytesToString(p2), p2[:len(p2):len(p2)])
	if !report(fmt.Sprintf("at alignment %d followed by 'Z' filler", c.Align), g2, f2) {
		return
	}
	// P3: followed by an adversarial continuation
	p3 := append(append(make([]byte, 0, len(c.Data)+len(c.Cont)+8), c.Data...), c.Cont...)
	g3, f3 := observe("continued", bytesToString(p3[:len(c.Data)]), p3[:len(c.Data):len(c.Data)])
	if !report(fmt.Sprintf("directly before the bytes %q", c.Cont), g3, f3) {
		return
	}
	// P1: last byte of the input is the last byte of a mapped page
	if len(c.Data) > 0 && len(c.Data) <= c05GuardSize {
		g1, f1 := func() (string, interface{}) {
			c05GuardMu.Lock()
			defer c05GuardMu.Unlock()
			if c05Guard == nil {
				g, err := newGuarded(c05GuardSize)
				if err != nil {
					panic("harness: mmap failed: " + err.Error())
				}
				c05Guard = g
			}
			p1 := c05Guard.atEnd(c.Data)
			return observe("page-end", bytesToString(p1), p1)
		}()
		if !report("at the end of a mapped page (next page PROT_NONE)", g1, f1) {
			return
		}
		res.Classes = append(res.Classes, "page-end")
	}
	return
}

// c05Classify maps an over-read (fault or continuation-dependent result) to a listed known finding.
func c05Classify(c *C05Case, entry string, fault bool) string {
	d := c.Data
	n := len(d)
	if knownListed("C05-literal-tail-overread") {
		for i := n - 1; i >= 0 && i >= n-4; i-- {
			if (d[i] == 't' || d[i] == 'n') && n-i < 4 || d[i] == 'f' && n-i < 5 {
				return "C05-literal-tail-overread"
			}
		}
	}
	if knownListed("C05-leading-zero-tail-overread") && n > 0 && d[n-1] == '0' {
		if n == 1 || !strings.ContainsRune("123456789.eE+", rune(d[n-2])) {
			return "C05-leading-zero-tail-overread"
		}
	}
	return ""
}
