package props

import (
	"bytes"
	"encoding/json"
	"fmt"

	"github.com/bytedance/sonic"
	"github.com/bytedance/sonic/ast"
	"github.com/bytedance/sonic/decoder"
	"github.com/bytedance/sonic/encoder"
	"pgregory.net/rapid"
	"verif/harness/cat"
	"verif/harness/gen"
	"verif/harness/ref"
	"verif/harness/stat"
)

// C02Case: one byte string offered to every JSON-consuming API.
type C02Case struct {
	Doc     []byte `json:"doc"`
	DocText string `json:"doc_text,omitempty"`
	Source  string `json:"source"`
	Align   int    `json:"align"`
}

func init() { register("C02", func() Case { return &C02Case{} }) }

var c02Templates = []func(body string) string{
	func(b string) string { return `"` + b + `"` },
	func(b string) string { return `["` + b + `"]` },
	func(b string) string { return `{"k":"` + b + `"}` },
	func(b string) string { return `{"` + b + `":1}` },
	func(b string) string { return `[1,"` + b + `",true]` },
	func(b string) string { return ` "` + b + `" ` },
}

func drawC02(t *rapid.T) Case {
	c := &C02Case{Align: rapid.IntRange(0, 63).Draw(t, "align")}
	strOpt := gen.StrOpt{LoneSurr: true}
	if rapid.IntRange(0, 2).Draw(t, "hostilestr") == 0 {
		strOpt = gen.Hostile
	}
	switch rapid.IntRange(0, 9).Draw(t, "src") {
	case 0:
		c.Doc = gen.RawBytes(t, 80)
		c.Source = "raw"
	case 1, 2:
		// geometry sweep: string bodies of every length 0..130 with an escape / quote at a drawn offset
		n := rapid.IntRange(0, 130).Draw(t, "geolen")
		body := bytes.Repeat([]byte{'a'}, n)
		if n > 0 {
			pos := rapid.IntRange(0, n-1).Draw(t, "geopos")
			switch rapid.IntRange(0, 4).Draw(t, "geokind") {
			case 0:
				body = append(body[:pos], append([]byte(`\"`), body[pos:]...)...)
			case 1:
				body = append(body[:pos], append([]byte(`\\`), body[pos:]...)...)
			case 2:
				body = append(body[:pos], append([]byte(`\n`), body[pos:]...)...)
			case 3:
				body[pos] = '\\' // may escape the next byte, possibly the closing quote
			}
		}
		c.Doc = []byte(c02Templates[rapid.IntRange(0, len(c02Templates)-1).Draw(t, "tmpl")](string(body)))
		c.Source = "geometry"
		if rapid.IntRange(0, 3).Draw(t, "geotrunc") == 0 && len(c.Doc) > 0 {
			c.Doc = c.Doc[:rapid.IntRange(0, len(c.Doc)-1).Draw(t, "geocut")]
			c.Source = "geometry-truncated"
		}
	default:
		c.Doc = gen.ValidDoc(t, gen.DocOpt{Str: strOpt, Wide: true, Num: gen.NumOpt{Huge: thorough()}})
		c.Source = "valid"
	}
	if c.Source == "valid" && rapid.IntRange(0, 2).Draw(t, "mutate") != 0 {
		var kind string
		c.Doc, kind = gen.Mutate(t, c.Doc)
		c.Source = "mutated:" + kind
		if rapid.IntRange(0, 5).Draw(t, "mutate2") == 0 {
			c.Doc, _ = gen.Mutate(t, c.Doc)
		}
	}
	if isPrintableUTF8(c.Doc) {
		c.DocText = string(c.Doc)
	}
	return c
}

type c02Skip struct{ A int }

// c02API is one consuming API: it reports whether it accepted the document.
type c02API struct {
	name     string
	agnostic int // 0: typed destination (only the reject direction is checked); 1: must accept every valid document; 2: must accept every valid document whose numbers fit float64 (converts values)
	run      func(doc []byte, s string) (accepted bool, captured [][]byte)
}

func unmarshalInto(api sonic.API, mk func() interface{}, capture func(interface{}) [][]byte) func([]byte, string) (bool, [][]byte) {
	return func(doc []byte, s string) (bool, [][]byte) {
		v := mk()
		if err := api.Unmarshal(doc, v); err != nil {
			return false, nil
		}
		v2 := mk()
		if err := api.UnmarshalFromString(s, v2); err != nil {
			panic(fmt.Sprintf("Unmarshal accepts but UnmarshalFromString rejects: %v", err))
		}
		if capture != nil {
			return true, capture(v)
		}
		return true, nil
	}
}

func nodeAccepts(n *ast.Node) bool {
	if n.Check() != nil {
		return false
	}
	if err := n.LoadAll(); err != nil {
		return false
	}
	if n.Check() != nil {
		return false
	}
	if _, err := n.Raw(); err != nil {
		return false
	}
	if _, err := n.Interface(); err != nil {
		return false
	}
	return true
}

var c02APIs []c02API

func init() {
	for _, cfg := range []struct {
		n   string
		api sonic.API
	}{{"std", sonic.ConfigStd}, {"default", sonic.ConfigDefault}} {
		api := cfg.api
		c02APIs = append(c02APIs,
			c02API{cfg.n + ".Valid", 1, func(doc []byte, s string) (bool, [][]byte) { return api.Valid(doc), nil }},
			c02API{cfg.n + ".Unmarshal(interface{})", 2, unmarshalInto(api, func() interface{} { return new(interface{}) }, nil)},
			c02API{cfg.n + ".Unmarshal(RawMessage)", 1, unmarshalInto(api, func() interface{} { return new(json.RawMessage) }, func(v interface{}) [][]byte { return [][]byte{*v.(*json.RawMessage)} })},
			c02API{cfg.n + ".Unmarshal(NoCopyRawMessage)", 1, unmarshalInto(api, func() interface{} { return new(sonic.NoCopyRawMessage) }, func(v interface{}) [][]byte { return [][]byte{*v.(*sonic.NoCopyRawMessage)} })},
			c02API{cfg.n + ".Unmarshal(URec)", 1, unmarshalInto(api, func() interface{} { return new(cat.URec) }, func(v interface{}) [][]byte { return [][]byte{[]byte(v.(*cat.URec).Raw)} })},
			c02API{cfg.n + ".Unmarshal(ast.Node)", 2, func(doc []byte, s string) (bool, [][]byte) {
				var n ast.Node
				if err := api.Unmarshal(doc, &n); err != nil {
					return false, nil
				}
				return nodeAccepts(&n), nil
			}},
			c02API{cfg.n + ".Unmarshal([]interface{})", 0, unmarshalInto(api, func() interface{} { return new([]interface{}) }, nil)},
			c02API{cfg.n + ".Unmarshal(map[string]interface{})", 0, unmarshalInto(api, func() interface{} { return new(map[string]interface{}) }, nil)},
			c02API{cfg.n + ".Unmarshal(map[string]RawMessage)", 0, unmarshalInto(api, func() interface{} { return new(map[string]json.RawMessage) }, func(v interface{}) [][]byte {
				var out [][]byte
				for _, r := range *v.(*map[string]json.RawMessage) {
					out = append(out, r)
				}
				return out
			})},
			c02API{cfg.n + ".Unmarshal([]URec)", 0, unmarshalInto(api, func() interface{} { return new([]cat.URec) }, func(v interface{}) [][]byte {
				var out [][]byte
				for _, r := range *v.(*[]cat.URec) {
					out = append(out, []byte(r.Raw))
				}
				return out
			})},
			c02API{cfg.n + ".Unmarshal(struct{A int})", 0, unmarshalInto(api, func() interface{} { return new(c02Skip) }, nil)},
			c02API{cfg.n + ".Unmarshal([]struct{A int})", 0, unmarshalInto(api, func() interface{} { return new([]c02Skip) }, nil)},
			c02API{cfg.n + ".Unmarshal(string)", 0, unmarshalInto(api, func() interface{} { return new(string) }, nil)},
			c02API{cfg.n + ".Unmarshal(*float64)", 0, unmarshalInto(api, func() interface{} { return new(*float64) }, nil)},
		)
	}
	c02APIs = append(c02APIs,
		c02API{"sonic.ValidString", 1, func(doc []byte, s string) (bool, [][]byte) { return sonic.ValidString(s), nil }},
		c02API{"encoder.Valid", 1, func(doc []byte, s string) (bool, [][]byte) { ok, _ := encoder.Valid(doc); return ok, nil }},
		c02API{"sonic.Get()", 2, func(doc []byte, s string) (bool, [][]byte) {
			n, err := sonic.Get(doc)
			if err != nil {
				return false, nil
			}
			return nodeAccepts(&n), nil
		}},
		c02API{"sonic.GetFromString()", 2, func(doc []byte, s string) (bool, [][]byte) {
			n, err := sonic.GetFromString(s)
			if err != nil {
				return false, nil
			}
			return nodeAccepts(&n), nil
		}},
		c02API{"sonic.GetWithOptions(ConcurrentRead)", 2, func(doc []byte, s string) (bool, [][]byte) {
			n, err := sonic.GetWithOptions(doc, ast.SearchOptions{ValidateJSON: true, ConcurrentRead: true, CopyReturn: true})
			if err != nil {
				return false, nil
			}
			return nodeAccepts(&n), nil
		}},
		c02API{"ast.NewRaw", 2, func(doc []byte, s string) (bool, [][]byte) {
			n := ast.NewRaw(s)
			return nodeAccepts(&n), nil
		}},
		c02API{"ast.NewRawConcurrentRead", 2, func(doc []byte, s string) (bool, [][]byte) {
			n := ast.NewRawConcurrentRead(s)
			return nodeAccepts(&n), nil
		}},
		c02API{"ast.NewSearcher.GetByPath()", 2, func(doc []byte, s string) (bool, [][]byte) {
			n, err := ast.NewSearcher(s).GetByPath()
			if err != nil {
				return false, nil
			}
			return nodeAccepts(&n), nil
		}},
	)
}

func (c *C02Case) Run() (res stat.Result) {
	buf := alignedCopy(c.Doc, c.Align, 0, '"')
	s := string(c.Doc)
	structural := ref.Structural(c.Doc)
	valid := json.Valid(c.Doc) && ref.MaxDepth(c.Doc) <= 512
	var probe interface{}
	numbersFit := valid && json.Unmarshal(c.Doc, &probe) == nil
	quirk := !structural && ref.UnterminatedStringQuirk(c.Doc) && knownListed("C02-unterminated-string-escaped-quote-block-tail")
	for _, api := range c02APIs {
		res.Sub++
		accepted, captured := api.run(buf, s)
		if !bytes.Equal(buf, c.Doc) {
			res.Err = fmt.Errorf("%s modified its input", api.name)
			return
		}
		if accepted && !structural {
			if quirk {
				res.Known = append(res.Known, "C02-unterminated-string-escaped-quote-block-tail")
				continue
			}
			if id := c02Classify(c, api.name); id != "" {
				res.Known = append(res.Known, id)
				continue
			}
			res.Err = fmt.Errorf("%s accepted a structurally malformed document: %s", api.name, clipB(c.Doc))
			return
		}
		if !accepted && valid && (api.agnostic == 1 || api.agnostic == 2 && numbersFit) {
			res.Err = fmt.Errorf("%s rejected a document encoding/json.Valid accepts: %s", api.name, clipB(c.Doc))
			return
		}
		for _, cap := range captured {
			if accepted && !ref.Structural(cap) {
				res.Err = fmt.Errorf("%s captured text that is not a structurally valid value: %s (from %s)", api.name, clipB(cap), clipB(c.Doc))
				return
			}
		}
	}
	// decoder.Skip delimits the first value
	res.Sub++
	start, end := decoder.Skip(buf)
	rs, re, rok := ref.FirstValueEnd(c.Doc)
	switch {
	case start >= 0 && !rok:
		if !(quirk || ref.UnterminatedStringQuirk(c.Doc[:min(end, len(c.Doc))]) && knownListed("C02-unterminated-string-escaped-quote-block-tail")) {
			res.Err = fmt.Errorf("decoder.Skip accepted [%d,%d) of a document that does not start with a well-formed value: %s", start, end, clipB(c.Doc))
			return
		}
		res.Known = append(res.Known, "C02-unterminated-string-escaped-quote-block-tail")
	case start >= 0 && rok && (start != rs || end != re):
		res.Err = fmt.Errorf("decoder.Skip returned [%d,%d), the first value is [%d,%d): %s", start, end, rs, re, clipB(c.Doc))
		return
	case start < 0 && rok && json.Valid(c.Doc[rs:re]) && ref.MaxDepth(c.Doc[rs:re]) <= 512 && (re == len(c.Doc) || bytes.IndexByte([]byte(" \t\r\n,]}:"), c.Doc[re]) >= 0):
		// (a scalar directly followed by other text, such as 1- or nullx, may be read as one malformed token)
		res.Err = fmt.Errorf("decoder.Skip failed (%d at %d) although the document starts with the valid value [%d,%d): %s", start, end, rs, re, clipB(c.Doc))
		return
	}

	res.NonTrivial = (!valid && c.Source != "valid") || (valid && len(c.Doc) > 64)
	res.Classes = append(res.Classes, "src:"+c.Source, fmt.Sprintf("len%%32=%d", len(c.Doc)%32))
	switch {
	case valid:
		res.Classes = append(res.Classes, "doc-valid")
	case structural:
		res.Classes = append(res.Classes, "doc-structural-only")
	default:
		res.Classes = append(res.Classes, "doc-malformed")
	}
	return
}

// c02Classify maps an acceptance of malformed input to a listed known finding.
func c02Classify(c *C02Case, api string) string {
	switch api {
	case "sonic.Get()", "sonic.GetFromString()", "sonic.GetWithOptions(ConcurrentRead)", "ast.NewRaw", "ast.NewRawConcurrentRead", "ast.NewSearcher.GetByPath()":
		if _, _, ok := ref.FirstValueEnd(c.Doc); ok && knownListed("C02-ast-trailing-bytes-ignored") {
			return "C02-ast-trailing-bytes-ignored"
		}
	}
	return ""
}
