package props

import (
	"bytes"
	"encoding/json"
	"fmt"
	"io"
	"reflect"
	"strings"
	"time"

	"github.com/bytedance/sonic"
	"github.com/bytedance/sonic/ast"
	"github.com/bytedance/sonic/decoder"
	"github.com/bytedance/sonic/encoder"
	"github.com/bytedance/sonic/unquote"
	"pgregory.net/rapid"
	"unicode/utf8"
	"verif/harness/cat"
	"verif/harness/gen"
	"verif/harness/ref"
	"verif/harness/stat"
)

// C07Case: a hostile input recipe (kept small so that multi-megabyte inputs still fit in a case file)
// and an entry point. The call itself is executed in a worker process: a fatal error there is
// attributed to this case.
type C07Case struct {
	Kind   string `json:"kind"`            // raw | doc | deep | bignum | escapes | govalue
	Data   []byte `json:"data,omitempty"`  // raw / doc
	Open   string `json:"open,omitempty"`  // deep: text repeated N times
	Close  string `json:"close,omitempty"` // deep: text repeated N times after Inner (may be empty: unclosed)
	Inner  string `json:"inner,omitempty"`
	N      int    `json:"n,omitempty"`
	Entry  int    `json:"entry"`
	GoKind int    `json:"gokind,omitempty"` // govalue: which hostile Go value
}

func init() { register("C07", func() Case { return &C07Case{} }) }

var c07Entries = []string{
	"Unmarshal(interface{})", "Unmarshal(struct skip)", "Unmarshal(RawMessage)", "Unmarshal(ast.Node)+LoadAll", "Unmarshal([][][]int)", "Unmarshal(Tree)",
	"std.Unmarshal(interface{})", "optdec.Unmarshal(interface{})", "Valid", "Get(path)+LoadAll", "NewRaw+LoadAll+Interface", "Preorder", "Loads", "decoder.Skip",
	"StreamDecoder", "unquote.String", "Get()+SortKeys+MarshalJSON", "NewSearcher(no validate)", "GetWithOptions()", "GetFromString()",
}

var c07GoKinds = []string{"pointer-cycle", "map-cycle", "slice-cycle", "deep-pointer-chain", "deep-slices", "deep-maps", "deep-struct-list", "chan-at-depth", "marshaler-panics?no:marshaler-error", "huge-string", "nan-deep"}

func (c *C07Case) input() []byte {
	switch c.Kind {
	case "raw", "doc":
		return c.Data
	case "prefix":
		// the first N bytes of Data; the rest stays behind it in the same backing array
		if c.N > len(c.Data) {
			return c.Data
		}
		return c.Data[:c.N]
	case "deep":
		var b bytes.Buffer
		b.Grow((len(c.Open)+len(c.Close))*c.N + len(c.Inner))
		for i := 0; i < c.N; i++ {
			b.WriteString(c.Open)
		}
		b.WriteString(c.Inner)
		for i := 0; i < c.N; i++ {
			b.WriteString(c.Close)
		}
		return b.Bytes()
	case "bignum":
		return []byte(c.Open + strings.Repeat(c.Inner, c.N) + c.Close)
	case "escapes":
		return []byte(`"` + strings.Repeat(c.Inner, c.N) + c.Close)
	}
	return nil
}

func drawC07(t *rapid.T) Case {
	c := &C07Case{Entry: rapid.IntRange(0, len(c07Entries)-1).Draw(t, "entry")}
	maxN := 3000000 // 3 MB of brackets: enough to exhaust a 1 GB goroutine stack with one small frame per level
	if thorough() {
		maxN = 3000000
	}
	bigN := func() int {
		return []int{1, 2, 100, 1000, 4095, 4096, 4097, 5000, 65536, maxN / 10, maxN}[rapid.IntRange(0, 10).Draw(t, "bign")]
	}
	switch rapid.IntRange(0, 9).Draw(t, "kind") {
	case 0, 1:
		c.Kind, c.Data = "raw", gen.RawBytes(t, 200)
	case 2:
		c.Kind = "prefix"
		c.Data = gen.ValidDoc(t, gen.DocOpt{Str: gen.StrOpt{LoneSurr: true}, Wide: true})
		if rapid.Bool().Draw(t, "lit") {
			c.Data = []byte([]string{"false", "true", "null", "[false,true]", `{"a":null}`, "-0.5", `"ab"`}[rapid.IntRange(0, 6).Draw(t, "littok")])
		}
		c.N = rapid.IntRange(0, len(c.Data)).Draw(t, "prefixlen")
	case 3:
		c.Kind = "doc"
		c.Data = gen.ValidDoc(t, gen.DocOpt{Str: gen.Hostile, Wide: true, Num: gen.NumOpt{Huge: true}})
		c.Data, _ = gen.Mutate(t, c.Data)
	case 4, 5:
		c.Kind = "deep"
		sh := [][3]string{{"[", "]", "1"}, {`{"a":`, "}", "null"}, {`[{"k":`, "}]", `"x"`}, {"[", "", ""}, {`{"a":`, "", ""}, {"[[", "]", "0"}, {`{"a":[`, "]}", ""}, {"[", "]", ""}, {`{"":`, `}`, `{}`}}
		s := sh[rapid.IntRange(0, len(sh)-1).Draw(t, "shape")]
		c.Open, c.Close, c.Inner = s[0], s[1], s[2]
		c.N = bigN()
	case 6:
		c.Kind = "bignum"
		f := [][3]string{{"", "", "9"}, {"-", "", "1"}, {"0.", "", "3"}, {"1e", "", "9"}, {"1.5e-", "", "1"}, {"[", "]", "7"}, {"0.", "e-5", "0"}, {"1", "", "0"}}
		s := f[rapid.IntRange(0, len(f)-1).Draw(t, "numform")]
		c.Open, c.Close, c.Inner = s[0], s[1], s[2]
		c.N = bigN()
	case 7:
		c.Kind = "escapes"
		c.Inner = []string{`\n`, `\\`, `\"`, `A`, `😀`, `\ud800`, "\xff", `\q`, "é", `\u00`}[rapid.IntRange(0, 9).Draw(t, "esc")]
		c.Close = []string{`"`, ``, `\`}[rapid.IntRange(0, 2).Draw(t, "escclose")]
		c.N = bigN() / 4
	case 8:
		// object keys of every length around the scratch-buffer sizes of the field-name matcher, with a
		// multi-byte or invalid rune at the boundary; decoded into structs (no field matches exactly)
		c.Kind = "doc"
		var b bytes.Buffer
		b.WriteString(`{"name":"a"`)
		for k := rapid.IntRange(1, 4).Draw(t, "nkeys"); k > 0; k-- {
			b.WriteString(`,"`)
			for seg := rapid.IntRange(1, 3).Draw(t, "nseg"); seg > 0; seg-- {
				b.WriteString(strings.Repeat([]string{"k", "K", "Z", "_"}[rapid.IntRange(0, 3).Draw(t, "fill")], rapid.IntRange(0, 70).Draw(t, "keylen")))
				b.WriteString([]string{"é", "世", "😀", "\xff", "\xe4\xb8", "ſ", "K", "\u212a", "İ", "\\u00e9", ""}[rapid.IntRange(0, 10).Draw(t, "keyrune")])
			}
			b.WriteString(`":1`)
		}
		b.WriteString("}")
		c.Data = b.Bytes()
		c.Entry = []int{1, 5, 0, 6}[rapid.IntRange(0, 3).Draw(t, "structentry")]
	default:
		c.Kind = "govalue"
		c.GoKind = rapid.IntRange(0, len(c07GoKinds)-1).Draw(t, "gokind")
		c.N = []int{1, 10, 100, 1000, 5000, 20000}[rapid.IntRange(0, 5).Draw(t, "depth")]
	}
	return c
}

type c07List struct {
	V    int
	Next *c07List
}

func c07GoValue(kind, n int) interface{} {
	switch kind {
	case 0:
		x := &c07List{}
		x.Next = x
		return x
	case 1:
		m := map[string]interface{}{}
		m["m"] = map[string]interface{}{"back": m}
		return m
	case 2:
		s := make([]interface{}, 1)
		s[0] = []interface{}{s}
		return s
	case 3:
		var p interface{} = 1
		for i := 0; i < n; i++ {
			q := p
			p = &q
		}
		return p
	case 4:
		var s interface{} = "leaf"
		for i := 0; i < n; i++ {
			s = []interface{}{s}
		}
		return s
	case 5:
		var m interface{} = 1.5
		for i := 0; i < n; i++ {
			m = map[string]interface{}{"k": m}
		}
		return m
	case 6:
		var l *c07List
		for i := 0; i < n; i++ {
			l = &c07List{V: i, Next: l}
		}
		return l
	case 7:
		var s interface{} = make(chan int)
		for i := 0; i < n%200; i++ {
			s = []interface{}{s}
		}
		return s
	case 8:
		return []interface{}{cat.MErr{Mode: n % 9}, cat.TErr{Fail: n%2 == 0}}
	case 9:
		return strings.Repeat("\"\\\x00<é\xff", n)
	default:
		var s interface{} = []float64{1, 2, nanValue()}
		for i := 0; i < n%300; i++ {
			s = map[string]interface{}{"k": s}
		}
		return s
	}
}

func nanValue() float64 { var z float64; return z / z }

// errReport checks that an error value is usable and summarises it.
func errReport(err error, inputLen int, what string) string {
	if err == nil {
		return "nil"
	}
	msg := err.Error()
	desc := ""
	if d, ok := err.(interface{ Description() string }); ok {
		desc = d.Description()
	}
	out := fmt.Sprintf("err(len=%d,desc=%d)", len(msg), len(desc))
	if len(msg) > 4096 || len(desc) > 4096 {
		out += " UNBOUNDED-MESSAGE"
	}
	pos := -1
	switch e := err.(type) {
	case decoder.SyntaxError:
		pos = e.Pos
	case *decoder.SyntaxError:
		pos = e.Pos
	case *decoder.MismatchTypeError:
		pos = e.Pos
	case ast.SyntaxError:
		pos = e.Pos
	}
	if pos != -1 && (pos < 0 || pos > inputLen) {
		m := msg
		if len(m) > 70 {
			m = m[:70]
		}
		out += fmt.Sprintf(" POSITION-OUTSIDE-INPUT(%d of %d,eof=%v) %q", pos, inputLen, strings.Contains(msg, "eof"), m)
	}
	return out
}

// Transcript executes the call (in the worker) and returns a one-line summary; panics are reported by the worker loop.
func (c *C07Case) Transcript() string {
	if c.Kind == "govalue" {
		v := c07GoValue(c.GoKind, c.N)
		var sb strings.Builder
		for _, api := range []sonic.API{sonic.ConfigDefault, sonic.ConfigStd} {
			b, err := api.Marshal(v)
			if err == nil && !json.Valid(b) {
				sb.WriteString("MALFORMED-OUTPUT ")
			}
			sb.WriteString(errReport(err, 0, "Marshal") + fmt.Sprintf(" out=%d;", len(b)))
		}
		var w bytes.Buffer
		err := encoder.NewStreamEncoder(&w).Encode(v)
		sb.WriteString(errReport(err, 0, "stream"))
		return sb.String()
	}
	in := c.input()
	s := string(in)
	n := len(in)
	switch c07Entries[c.Entry] {
	case "Unmarshal(interface{})":
		var v interface{}
		return errReport(sonic.Unmarshal(in, &v), n, "")
	case "Unmarshal(struct skip)":
		var v struct {
			Zzz  int
			Name string `json:"name"`
			Uni  int    `json:"KKKKKKKKKKKKKKKKKKKKKKKKKKKKKK世界,omitempty"`
		}
		return errReport(sonic.Unmarshal(in, &v), n, "")
	case "Unmarshal(RawMessage)":
		var v json.RawMessage
		return errReport(sonic.Unmarshal(in, &v), n, "")
	case "Unmarshal(ast.Node)+LoadAll":
		var v ast.Node
		err := sonic.Unmarshal(in, &v)
		if err == nil {
			err = v.LoadAll()
			if err == nil {
				_, err = v.MarshalJSON()
			}
		}
		return errReport(err, n, "")
	case "Unmarshal([][][]int)":
		var v [][][]int
		return errReport(sonic.Unmarshal(in, &v), n, "")
	case "Unmarshal(Tree)":
		var v cat.Tree
		return errReport(sonic.Unmarshal(in, &v), n, "")
	case "std.Unmarshal(interface{})":
		var v interface{}
		return errReport(sonic.ConfigStd.Unmarshal(in, &v), n, "")
	case "optdec.Unmarshal(interface{})":
		// selected in this worker through the hook (the optdec worker is started separately for C11)
		return "skipped"
	case "Valid":
		return fmt.Sprint(sonic.Valid(in))
	case "Get(path)+LoadAll":
		nd, err := sonic.Get(in, "a", 0, "a")
		if err == nil {
			err = nd.LoadAll()
		}
		return errReport(err, n, "")
	case "NewRaw+LoadAll+Interface":
		nd := ast.NewRaw(s)
		err := nd.Check()
		if err == nil {
			err = nd.LoadAll()
		}
		if err == nil {
			_, err = nd.Interface()
		}
		return errReport(err, n, "")
	case "Preorder":
		return errReport(ast.Preorder(s, &c14Visitor{}, nil), n, "")
	case "Loads":
		_, _, err := ast.Loads(s)
		return errReport(err, n, "")
	case "decoder.Skip":
		a, b := decoder.Skip(in)
		if a >= 0 && (b < a || b > n) {
			return fmt.Sprintf("POSITION-OUTSIDE-INPUT(%d,%d of %d)", a, b, n)
		}
		return fmt.Sprint(a >= 0)
	case "StreamDecoder":
		dec := sonic.ConfigDefault.NewDecoder(bytes.NewReader(in))
		succ := 0
		var last error
		for i := 0; i < 6; i++ {
			var v interface{}
			if last = dec.Decode(&v); last != nil {
				break
			}
			succ++
		}
		if last == nil && succ >= 6 && n < 6 {
			return "NO-PROGRESS"
		}
		if last == io.EOF {
			return fmt.Sprintf("eof after %d", succ)
		}
		return fmt.Sprintf("%d then %s", succ, errReport(last, n, ""))
	case "unquote.String":
		_, e := unquote.String(s)
		return fmt.Sprint(int(e))
	case "GetWithOptions()":
		nd, err := sonic.GetWithOptions(in, ast.SearchOptions{ValidateJSON: true, ConcurrentRead: true})
		if err == nil {
			_, err = nd.Raw()
		}
		return errReport(err, n, "")
	case "GetFromString()":
		nd, err := sonic.GetFromString(bytesToString(in))
		if err == nil {
			_, err = nd.Interface()
		}
		return errReport(err, n, "")
	case "Get()+SortKeys+MarshalJSON":
		nd, err := sonic.Get(in)
		if err == nil {
			err = nd.SortKeys(true)
		}
		if err == nil {
			_, err = nd.MarshalJSON()
		}
		return errReport(err, n, "")
	default:
		sr := ast.NewSearcher(s)
		sr.ValidateJSON = false
		nd, err := sr.GetByPath("a", "a")
		if err == nil {
			_, err = nd.Raw()
		}
		// validation was switched off by the caller (documented: results on malformed input are unspecified);
		// only "no crash, usable bounded message" is required here, not the position
		return errReport(err, 1<<40, "")
	}
}

// Run ships the case to a worker and judges the answer.
func (c *C07Case) Run() (res stat.Result) {
	res.Sub = 1
	res.Classes = append(res.Classes, "kind:"+c.Kind)
	if c.Kind == "govalue" {
		res.Classes = append(res.Classes, "go:"+c07GoKinds[c.GoKind])
	} else {
		res.Classes = append(res.Classes, "entry:"+c07Entries[c.Entry])
	}
	if c.N >= 100000 {
		res.Classes = append(res.Classes, "n>=100000")
	}
	w, err := getWorker("VERIF_C07=1")
	if err != nil {
		panic("harness: cannot start worker: " + err.Error())
	}
	tr, err := w.ask("C07", c)
	if _, ok := err.(errWorkerTimeout); ok {
		// hang rule: the case is re-run alone in fresh workers with doubled deadlines; only a case that
		// exceeds all three is reported as a (reproducible) hang, otherwise the run is inconclusive
		hung := true
		for _, factor := range []time.Duration{2, 4} {
			w2, e2 := startWorker([]string{"VERIF_C07=retry"})
			if e2 != nil {
				panic("harness: cannot start worker: " + e2.Error())
			}
			w2.dl = askDeadline * factor
			tr, err = w2.ask("C07", c)
			w2.stop()
			if _, still := err.(errWorkerTimeout); !still {
				hung = false
				break
			}
		}
		if hung {
			res.Err = fmt.Errorf("%s on %s input (n=%d): no answer within %v, %v and %v in three separate worker processes (reproducible hang)", c.entryName(), c.Kind, c.N, askDeadline, 2*askDeadline, 4*askDeadline)
			return
		}
		if err == nil {
			res.Inconclusive = "C07: a case exceeded its deadline once and completed when re-run alone (machine load)"
		}
	}
	if err != nil {
		if id := c07Classify(c, err.Error()); id != "" {
			res.Known = append(res.Known, id)
			res.NonTrivial = true
			return
		}
		res.Err = fmt.Errorf("%s on %s input (n=%d): %v", c.entryName(), c.Kind, c.N, err)
		return
	}
	res.NonTrivial = strings.Contains(tr, "err(") || c.N > 1000
	for _, bad := range []string{"UNBOUNDED-MESSAGE", "POSITION-OUTSIDE-INPUT", "NO-PROGRESS", "MALFORMED-OUTPUT"} {
		if strings.Contains(tr, bad) {
			if id := c07Classify(c, tr); id != "" {
				res.Known = append(res.Known, id)
				return
			}
			res.Err = fmt.Errorf("%s on %s input (n=%d): %s", c.entryName(), c.Kind, c.N, tr)
			return
		}
	}
	_ = reflect.TypeOf
	return
}

func (c *C07Case) entryName() string {
	if c.Kind == "govalue" {
		return "Marshal(" + c07GoKinds[c.GoKind] + ")"
	}
	return c07Entries[c.Entry]
}

// c07Classify maps a crash / unusable error to a listed known finding.
func c07Classify(c *C07Case, detail string) string {
	// EOF inside a container while skipping or searching: the native state machine reports a position a few bytes (seen: up to 7) past the input
	if i := strings.Index(detail, "POSITION-OUTSIDE-INPUT("); i >= 0 && knownListed("C07-eof-position-past-input") {
		var pos, n int
		var eof bool
		if _, err := fmt.Sscanf(detail[i:], "POSITION-OUTSIDE-INPUT(%d of %d,eof=%t)", &pos, &n, &eof); err == nil && pos > n && pos <= n+8 &&
			!strings.Contains(detail, "UNBOUNDED") && !strings.Contains(detail, "NO-PROGRESS") && !strings.Contains(detail, "MALFORMED") {
			return "C07-eof-position-past-input"
		}
	}
	if i := strings.Index(detail, "POSITION-OUTSIDE-INPUT("); i >= 0 && c.Kind != "govalue" && strings.HasPrefix(c07Entries[c.Entry], "std.") && knownListed("C07-position-in-corrected-copy") {
		var pos, n int
		var eof bool
		in := c.input()
		if _, err := fmt.Sscanf(detail[i:], "POSITION-OUTSIDE-INPUT(%d of %d,eof=%t)", &pos, &n, &eof); err == nil && !utf8.Valid(in) && pos <= len(ref.CorrectUTF8(in, []byte("xxx")))+4 &&
			!strings.Contains(detail, "UNBOUNDED") && !strings.Contains(detail, "NO-PROGRESS") && !strings.Contains(detail, "MALFORMED") {
			return "C07-position-in-corrected-copy"
		}
	}
	if c.Kind == "prefix" && strings.Contains(detail, "POSITION-OUTSIDE-INPUT") && !strings.Contains(detail, "UNBOUNDED") && !strings.Contains(detail, "PANIC") {
		// the bytes that follow the input in the same backing array were read: the listed native over-reads
		if id := c05Classify(&C05Case{Data: c.input()}, "", false); id != "" {
			return id
		}
	}
	if c.Kind == "bignum" && strings.Contains(detail, "UNBOUNDED-MESSAGE") && !strings.Contains(detail, "POSITION") && knownListed("C07-number-error-quotes-literal") {
		var l, d int
		if j := strings.Index(detail, "err(len="); j >= 0 {
			if _, err := fmt.Sscanf(detail[j:], "err(len=%d,desc=%d)", &l, &d); err == nil && l < len(c.input())+200 && d < len(c.input())+200 {
				switch c07Entries[c.Entry] {
				case "NewRaw+LoadAll+Interface", "Loads", "Get(path)+LoadAll", "Unmarshal(ast.Node)+LoadAll", "Get()+SortKeys+MarshalJSON", "GetFromString()", "GetWithOptions()":
					return "C07-number-error-quotes-literal"
				}
			}
		}
	}
	return ""
}
