package props

import (
	"encoding/json"
	"fmt"
	"sync"

	"github.com/bytedance/sonic"
	"github.com/bytedance/sonic/ast"
	"pgregory.net/rapid"
	"verif/harness/gen"
	"verif/harness/ref"
	"verif/harness/stat"
)

// C16Case: goroutines reading one shared node that was declared concurrently readable.
type C16Case struct {
	Doc     []byte    `json:"doc"`
	DocText string    `json:"doc_text,omitempty"`
	Create  int       `json:"create"` // 0 GetWithOptions{ConcurrentRead}, 1 NewRawConcurrentRead, 2 NewRaw+Load, 3 Get+LoadAll, 4 Searcher{ConcurrentRead, CopyReturn}
	Readers [][]C16Op `json:"readers"`
	Broken  bool      `json:"broken,omitempty"` // the document is structurally broken: every reader must get an error, none may block
}

type C16Op struct {
	Op   string     `json:"op"` // get | raw | marshal | interface | map | array | string | float | len | values
	Path []PathElem `json:"path"`
}

func init() { register("C16", func() Case { return &C16Case{} }) }

var c16Ops = []string{"get", "raw", "marshal", "interface", "map", "array", "string", "float", "type", "exists"}

func drawC16(t *rapid.T) Case {
	c := &C16Case{}
	c.Doc = gen.ValidDoc(t, gen.DocOpt{Str: gen.StrOpt{MaxPieces: 3}, Wide: rapid.IntRange(0, 3).Draw(t, "wide") == 0, MaxDepth: 3, Nested: true, KeyPool: []string{"a", "b", "c", "k", "A"}})
	if !json.Valid(c.Doc) {
		c.Doc = []byte(`{"a":[1,{"b":"x"}],"c":2.5}`)
	}
	c.Create = rapid.IntRange(0, 4).Draw(t, "create")
	if rapid.IntRange(0, 7).Draw(t, "broken") == 0 && c.Create <= 1 {
		c.Doc, _ = gen.Mutate(t, c.Doc)
		// anything encoding/json would reject counts as broken: what a reader sees then depends on which part
		// of the document has been parsed already, so only "no race, no panic, nobody blocks" is required
		c.Broken = !json.Valid(c.Doc)
	}
	root := ref.Parse(c.Doc)
	g := rapid.IntRange(2, 8).Draw(t, "readers")
	for i := 0; i < g; i++ {
		n := rapid.IntRange(1, 5).Draw(t, "nops")
		var ops []C16Op
		for j := 0; j < n; j++ {
			op := C16Op{Op: c16Ops[rapid.IntRange(0, len(c16Ops)-1).Draw(t, "op")]}
			cur := root
			depth := rapid.IntRange(0, 3).Draw(t, "plen")
			for d := 0; d < depth && cur != nil; d++ {
				switch cur.Kind {
				case ref.TObjOpen:
					if len(cur.Keys) == 0 {
						cur = nil
						break
					}
					i := rapid.IntRange(0, len(cur.Keys)-1).Draw(t, "m")
					k := cur.Keys[i].Str
					op.Path = append(op.Path, PathElem{Key: &k})
					cur = cur.Elems[firstIndexOfKey(cur, k)]
				case ref.TArrOpen:
					if len(cur.Elems) == 0 {
						cur = nil
						break
					}
					i := rapid.IntRange(0, len(cur.Elems)-1).Draw(t, "e")
					op.Path = append(op.Path, PathElem{Index: &i})
					cur = cur.Elems[i]
				default:
					cur = nil
				}
			}
			ops = append(ops, op)
		}
		c.Readers = append(c.Readers, ops)
	}
	if isPrintableUTF8(c.Doc) {
		c.DocText = string(c.Doc)
	}
	return c
}

func (c *C16Case) newRoot() (ast.Node, error) {
	s := string(c.Doc)
	switch c.Create {
	case 0:
		return sonic.GetWithOptions(c.Doc, ast.SearchOptions{ValidateJSON: true, ConcurrentRead: true})
	case 1:
		n := ast.NewRawConcurrentRead(s)
		return n, n.Check()
	case 2:
		n := ast.NewRaw(s)
		if err := n.Check(); err != nil {
			return n, err
		}
		return n, n.Load()
	case 3:
		n, err := sonic.Get(c.Doc)
		if err != nil {
			return n, err
		}
		return n, n.LoadAll()
	default:
		sr := ast.NewSearcher(s)
		sr.ConcurrentRead = true
		sr.CopyReturn = true
		return sr.GetByPath()
	}
}

func c16Read(root *ast.Node, op C16Op) string {
	args := make([]interface{}, len(op.Path))
	for i, pe := range op.Path {
		if pe.Key != nil {
			args[i] = *pe.Key
		} else {
			args[i] = *pe.Index
		}
	}
	n := root.GetByPath(args...)
	if n == nil {
		return "nil"
	}
	if err := n.Check(); err != nil {
		return "error"
	}
	j := func(v interface{}, err error) string {
		if err != nil {
			return "err"
		}
		b, _ := json.Marshal(v)
		return string(b)
	}
	switch op.Op {
	case "get":
		return fmt.Sprint(n.Exists(), n.TypeSafe())
	case "raw":
		r, err := n.Raw()
		if err != nil {
			return "err"
		}
		// a raw node answers with its source text, a parsed one re-serialises: compare by tokens
		return "raw:" + canonTokens([]byte(r))
	case "marshal":
		b, err := n.MarshalJSON()
		if err != nil {
			return "err"
		}
		return "json:" + canonTokens(b)
	case "interface":
		return j(n.Interface())
	case "map":
		return j(n.Map())
	case "array":
		return j(n.Array())
	case "string":
		return j(n.String())
	case "float":
		return j(n.Float64())
	case "type":
		return fmt.Sprint(n.TypeSafe())
	default:
		return fmt.Sprint(n.Exists())
	}
}

// canonTokens renders a JSON text token by token with strings decoded, so that escape spelling and white space do not matter.
func canonTokens(b []byte) string {
	toks, ok := ref.Scan(b)
	if !ok {
		return "!" + string(b)
	}
	out := make([]byte, 0, len(b))
	for _, t := range toks {
		if t.Kind == ref.TString {
			s, _ := ref.Unquote(b[t.Beg+1 : t.End-1])
			out = append(out, '"')
			out = append(out, s...)
			out = append(out, '"')
		} else {
			out = append(out, b[t.Beg:t.End]...)
		}
		out = append(out, ' ')
	}
	return string(out)
}

func (c *C16Case) Run() (res stat.Result) {
	root, err := c.newRoot()
	if c.Broken {
		res.Classes = append(res.Classes, "broken-doc")
		if err != nil {
			return // rejected at creation: nothing to share
		}
	} else if err != nil {
		res.Err = fmt.Errorf("creating the shared node failed: %v", err)
		return
	}
	results := make([][]string, len(c.Readers))
	panics := make([]interface{}, len(c.Readers))
	start := make(chan struct{})
	var wg sync.WaitGroup
	for g := range c.Readers {
		wg.Add(1)
		results[g] = make([]string, len(c.Readers[g]))
		go func(g int) {
			defer wg.Done()
			defer func() {
				if p := recover(); p != nil {
					panics[g] = p
				}
			}()
			<-start
			for j, op := range c.Readers[g] {
				results[g][j] = c16Read(&root, op)
			}
		}(g)
	}
	close(start)
	wg.Wait()
	res.Classes = append(res.Classes, fmt.Sprintf("create=%d", c.Create), fmt.Sprintf("readers=%d", len(c.Readers)))
	sameContainer := 0
	for g := range c.Readers {
		res.Sub += len(c.Readers[g])
		if panics[g] != nil {
			res.Err = fmt.Errorf("reader %d panicked: %v", g, panics[g])
			return
		}
		for j, op := range c.Readers[g] {
			if c.Broken {
				continue
			}
			// single-threaded oracle on an identical fresh node
			fresh, ferr := c.newRoot()
			want := "creation-error"
			if ferr == nil {
				want = c16Read(&fresh, op)
			}
			if results[g][j] != want {
				a, b := results[g][j], want
				k := 0
				for k < len(a) && k < len(b) && a[k] == b[k] {
					k++
				}
				lo := k - 30
				if lo < 0 {
					lo = 0
				}
				res.Err = fmt.Errorf("reader %d op %d (%s at %s): concurrent read and single-threaded read of a fresh node differ at offset %d: ...%s vs ...%s", g, j, op.Op, pathString(op.Path), k, clipS(a[lo:]), clipS(b[lo:]))
				return
			}
			if len(op.Path) <= 1 {
				sameContainer++
			}
		}
	}
	res.NonTrivial = sameContainer >= 2 && c.Create <= 1
	return
}

func pathString(p []PathElem) string {
	s := ""
	for _, pe := range p {
		if pe.Key != nil {
			s += fmt.Sprintf("/%q", *pe.Key)
		} else {
			s += fmt.Sprintf("/%d", *pe.Index)
		}
	}
	return s
}
