package props

import (
	"encoding/json"
	"fmt"
	"reflect"

	"github.com/bytedance/sonic"
	"pgregory.net/rapid"
	"verif/harness/gen"
	"verif/harness/ref"
	"verif/harness/stat"
	"verif/harness/tv"
)

// C03Case: one value of one (mostly freshly generated) type, marshaled by
// encoding/json and by sonic's std-compatible configuration.
type C03Case struct {
	TypedValue
	Unsupported int `json:"unsupported,omitempty"` // 1..: wrap the value in a shape holding an unencodable kind
}

func init() { register("C03", func() Case { return &C03Case{} }) }

func drawC03(t *rapid.T) Case {
	c := &C03Case{}
	to := gen.TypeOpt{Flav: gen.FlavEncode, Fresh: rapid.IntRange(0, 3).Draw(t, "fresh") != 0, MaxDepth: 3}
	if !thorough() && rapid.IntRange(0, 5).Draw(t, "deep") == 0 {
		// nesting beyond the default inline depth: sub-programs are compiled and cached separately
		to.MaxDepth = 5
	}
	if thorough() {
		to.MaxDepth = rapid.IntRange(2, 5).Draw(t, "maxdepth")
		to.MaxFields = rapid.IntRange(3, 14).Draw(t, "maxfields")
	}
	vo := gen.ValOpt{InvalidUTF8: true, BadNumbers: true, NaN: rapid.IntRange(0, 5).Draw(t, "nan") == 0, Long: thorough()}
	c.TypedValue, _, _ = drawTypedValue(t, to, vo)
	if rapid.IntRange(0, 11).Draw(t, "unsup") == 0 {
		c.Unsupported = rapid.IntRange(1, 8).Draw(t, "unsupkind")
	}
	return c
}

type selfRef struct {
	V    interface{}
	Next *selfRef
}

// wrapUnsupported embeds v in a value that encoding/json cannot encode (or can, for the control shapes).
func wrapUnsupported(kind int, v interface{}) interface{} {
	switch kind {
	case 1:
		return map[string]interface{}{"v": v, "c": make(chan int)}
	case 2:
		return []interface{}{v, func() {}}
	case 3:
		return struct {
			V interface{}
			C complex128
		}{v, complex(1, 2)}
	case 4:
		return map[[1]int]interface{}{{1}: v} // unsupported key type (bool/float keys are a deliberate sonic extension: outside the domain)
	case 5:
		return map[struct{ A int }]interface{}{{1}: v}
	case 6:
		s := &selfRef{V: v}
		s.Next = s // pointer cycle
		return s
	case 7:
		m := map[string]interface{}{"v": v}
		m["self"] = m // map cycle
		return m
	default:
		return struct {
			V interface{}
			C chan int `json:"-"` // ignored: still encodable
			F func()   `json:"f,omitempty"`
		}{V: v}
	}
}

func (c *C03Case) Run() (res stat.Result) {
	ty, v, err := c.Materialise()
	if err != nil {
		res.Err = fmt.Errorf("harness: %v", err)
		return
	}
	res.Programs = firstUse(ty)
	// three addressing modes: value in interface, pointer to value, value inside a map
	variants := []struct {
		name string
		x    interface{}
	}{
		{"value", v.Interface()},
		{"pointer", v.Addr().Interface()},
		{"slice-elem", reflect.Append(reflect.MakeSlice(reflect.SliceOf(ty), 0, 1), v).Interface()},
	}
	if c.Unsupported != 0 {
		variants = []struct {
			name string
			x    interface{}
		}{{fmt.Sprintf("unsupported-%d", c.Unsupported), wrapUnsupported(c.Unsupported, v.Interface())}}
	}
	tokens := 0
	for _, va := range variants {
		res.Sub++
		jb, je := json.Marshal(va.x)
		sb, se := sonic.ConfigStd.Marshal(va.x)
		if (je == nil) != (se == nil) {
			if id := c03Classify(c, va.name, je, se, ""); id != "" {
				res.Known = append(res.Known, id)
				continue
			}
			res.Err = fmt.Errorf("Marshal(%s of %s): encoding/json err=%v, sonic err=%v (json=%s sonic=%s)", va.name, ty, je, se, clipB(jb), clipB(sb))
			return
		}
		if je != nil {
			res.Classes = append(res.Classes, "both-error")
			continue
		}
		if !json.Valid(sb) {
			res.Err = fmt.Errorf("Marshal(%s of %s): output is not valid JSON: %s", va.name, ty, clipB(sb))
			return
		}
		if d := ref.TokensEqual(jb, sb, true); d != "" {
			if id := c03Classify(c, va.name, je, se, d); id != "" {
				res.Known = append(res.Known, id)
				continue
			}
			res.Err = fmt.Errorf("Marshal(%s of %s): %s\n json: %s\nsonic: %s", va.name, ty, d, clipB(jb), clipB(sb))
			return
		}
		toks, _ := ref.Scan(jb)
		tokens = len(toks)
	}
	var f typeFeatures
	featuresOf(c.T, &f)
	res.NonTrivial = (f.structs > 0 || f.maps > 0) && tokens >= 3
	res.Classes = append(res.Classes, f.classes()...)
	if res.Programs > 0 {
		res.Classes = append(res.Classes, "new-type")
	}
	if c.Unsupported != 0 {
		res.Classes = append(res.Classes, fmt.Sprintf("unsupported-%d", c.Unsupported))
	}
	return
}

func clipB(b []byte) string {
	if len(b) > 400 {
		return string(b[:400]) + "…"
	}
	return string(b)
}

// c03Classify maps a mismatch to a listed known finding, or "".
func c03Classify(c *C03Case, variant string, je, se error, diff string) string {
	if diff != "" && variant != "" && c.Unsupported == 0 && knownListed("C03-omitempty-negative-zero") {
		// -0.0 in an omitempty float field: encoding/json omits it (v.Float()==0), sonic tests the bits.
		// Excused only if flipping exactly those values to +0.0 makes sonic's output token-equal to encoding/json's.
		_, v, err := c.Materialise()
		if err == nil {
			jb, _ := json.Marshal(v.Interface())
			if flipNegZeroOmitempty(v) > 0 {
				if sb, e2 := sonic.ConfigStd.Marshal(v.Interface()); e2 == nil && ref.TokensEqual(jb, sb, true) == "" {
					return "C03-omitempty-negative-zero"
				}
			}
		}
	}
	return ""
}

var _ = tv.Dump
