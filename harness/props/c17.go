package props

import (
	"bytes"
	"encoding/json"
	"errors"
	"fmt"
	"io"
	"reflect"
	"strings"
	"unicode/utf8"

	"github.com/bytedance/sonic"
	"github.com/bytedance/sonic/encoder"
	"pgregory.net/rapid"
	"verif/harness/gen"
	"verif/harness/ref"
	"verif/harness/stat"
)

// C17Case: a stream of top-level values, a tail, a chunk plan and an optional reader fault;
// or (Enc) a value written through a stream encoder to a faulty writer.
type C17Case struct {
	Values   []string `json:"values"`
	Seps     []string `json:"seps"`      // Seps[i] follows Values[i]
	Lead     string   `json:"lead"`      // white space before the first value
	TailKind string   `json:"tail_kind"` // clean | spaces | truncated | junk | closer
	Tail     string   `json:"tail"`
	Chunks   []int    `json:"chunks"` // read sizes, used cyclically; 0 = empty read
	EOFData  bool     `json:"eof_with_data"`
	FaultAt  int      `json:"fault_at"` // -1: none; else the reader fails with a sentinel after delivering this many bytes
	Dest     int      `json:"dest"`     // 0 interface{}, 1 json.RawMessage
	UseNum   bool     `json:"use_number"`

	Enc       bool   `json:"enc,omitempty"`
	EncValue  string `json:"enc_value,omitempty"` // JSON text of the value to encode (decoded into interface{})
	EncMask   uint64 `json:"enc_mask,omitempty"`
	EncIndent bool   `json:"enc_indent,omitempty"`
	WriteMax  int    `json:"write_max,omitempty"`  // writer accepts at most this many bytes per call (0 = all)
	FailCall  int    `json:"fail_call,omitempty"`  // writer fails at this call (1-based; 0 = never)
	FailShort int    `json:"fail_short,omitempty"` // bytes accepted by the failing call
}

func init() { register("C17", func() Case { return &C17Case{} }) }

var errSentinel = errors.New("c17: injected reader/writer fault")

var c17Truncated = []string{`{"a":`, `{"a"`, `{`, `[1,`, `[`, `"abc`, `"ab\`, `"\u00`, `tru`, `nul`, `f`, `-`, `1e`, `1.`, `{"a":1,`, `[[1],`, `"😀`[:3]}
var c17Junk = []string{`x`, `@`, `,`, `:`, `/`, `nulx`, `trux`, `01`, `1..2`, `+1`}
var c17Closers = []string{`]`, `}`, ` ]`, "\n}"}

func selfDelimiting(v string) bool {
	c := v[len(v)-1]
	return c == '"' || c == '}' || c == ']'
}

func drawC17(t *rapid.T) Case {
	c := &C17Case{FaultAt: -1}
	if rapid.IntRange(0, 4).Draw(t, "encoder") == 0 {
		c.Enc = true
		c.EncValue = string(bytes.TrimSpace(gen.ValidDoc(t, gen.DocOpt{Str: gen.StrOpt{MaxPieces: 3}, MaxDepth: 2, NoSpace: true})))
		var probe interface{}
		if json.Unmarshal([]byte(c.EncValue), &probe) != nil {
			c.EncValue = `{"a":[1,"x"]}`
		}
		c.EncMask = uint64(rapid.IntRange(0, 511).Draw(t, "mask")) | optSortMapKeys // sorted keys: the reference bytes must be deterministic
		c.EncIndent = rapid.IntRange(0, 3).Draw(t, "indent") == 0
		c.WriteMax = []int{0, 0, 1, 2, 3, 7, 64}[rapid.IntRange(0, 6).Draw(t, "wmax")]
		c.FailCall = rapid.IntRange(0, 6).Draw(t, "failcall")
		c.FailShort = rapid.IntRange(0, 3).Draw(t, "failshort")
		return c
	}
	n := rapid.IntRange(0, 5).Draw(t, "nvalues")
	for i := 0; i < n; i++ {
		// invalid UTF-8 inside strings: both configurations used here validate strings, so the decoder works on a repaired copy
		v := string(bytes.TrimSpace(gen.ValidDoc(t, gen.DocOpt{Str: gen.StrOpt{MaxPieces: 3, LoneSurr: true, InvalidUTF8: rapid.IntRange(0, 2).Draw(t, "badutf8") == 0}, MaxDepth: 2, Num: gen.NumOpt{}})))
		var probe interface{}
		if json.Unmarshal([]byte(v), &probe) != nil {
			v = `[1.5,"x",{"k":null}]`
		}
		if rapid.IntRange(0, 15).Draw(t, "bigvalue") == 0 {
			// a value around the 4 KiB buffer boundary
			v = `"` + strings.Repeat("a", 4096+rapid.IntRange(-70, 70).Draw(t, "biglen")) + `"`
		}
		c.Values = append(c.Values, v)
		sep := gen.Space(t)
		if sep == "" && !selfDelimiting(v) {
			sep = []string{" ", "\n", "\t", "\r\n"}[rapid.IntRange(0, 3).Draw(t, "sep1")]
		}
		c.Seps = append(c.Seps, sep)
	}
	c.Lead = gen.Space(t)
	switch rapid.IntRange(0, 6).Draw(t, "tailkind") {
	case 0, 1:
		c.TailKind = "clean"
	case 2:
		c.TailKind, c.Tail = "spaces", " \n\t  "
	case 3, 4:
		c.TailKind, c.Tail = "truncated", c17Truncated[rapid.IntRange(0, len(c17Truncated)-1).Draw(t, "trunc")]
	case 5:
		c.TailKind, c.Tail = "junk", c17Junk[rapid.IntRange(0, len(c17Junk)-1).Draw(t, "junk")]
	default:
		c.TailKind, c.Tail = "closer", c17Closers[rapid.IntRange(0, len(c17Closers)-1).Draw(t, "closer")]
	}
	if (c.TailKind == "truncated" || c.TailKind == "junk") && n > 0 && c.Seps[n-1] == "" {
		c.Seps[n-1] = " "
	}
	nc := rapid.IntRange(1, 6).Draw(t, "nchunks")
	nonzero := false
	for i := 0; i < nc; i++ {
		sz := []int{0, 1, 1, 2, 3, 5, 7, 16, 31, 32, 33, 64, 100, 4095, 4096, 4097, 100000}[rapid.IntRange(0, 16).Draw(t, "chunk")]
		nonzero = nonzero || sz > 0
		c.Chunks = append(c.Chunks, sz)
	}
	if !nonzero {
		c.Chunks = append(c.Chunks, 1)
	}
	c.EOFData = rapid.Bool().Draw(t, "eofdata")
	c.Dest = rapid.IntRange(0, 1).Draw(t, "dest")
	c.UseNum = rapid.IntRange(0, 3).Draw(t, "usenumber") == 0
	if rapid.IntRange(0, 3).Draw(t, "fault") == 0 {
		total := len(c.input())
		c.FaultAt = rapid.IntRange(0, total).Draw(t, "faultat")
	}
	return c
}

func (c *C17Case) input() []byte {
	var b bytes.Buffer
	b.WriteString(c.Lead)
	for i, v := range c.Values {
		b.WriteString(v)
		b.WriteString(c.Seps[i])
	}
	b.WriteString(c.Tail)
	return b.Bytes()
}

// valueEnds returns the end offset of every value in the input.
func (c *C17Case) valueEnds() []int {
	var ends []int
	off := len(c.Lead)
	for i, v := range c.Values {
		off += len(v)
		ends = append(ends, off)
		off += len(c.Seps[i])
	}
	return ends
}

// chunkReader delivers data according to the plan.
type chunkReader struct {
	data    []byte
	pos     int
	chunks  []int
	i       int
	eofData bool
	faultAt int
	reads   int
}

func (r *chunkReader) Read(p []byte) (int, error) {
	r.reads++
	limit := len(r.data)
	if r.faultAt >= 0 && r.faultAt < limit {
		limit = r.faultAt
	}
	if r.pos >= limit {
		if r.faultAt >= 0 {
			return 0, errSentinel
		}
		return 0, io.EOF
	}
	sz := r.chunks[r.i%len(r.chunks)]
	r.i++
	if sz > len(p) {
		sz = len(p)
	}
	if sz > limit-r.pos {
		sz = limit - r.pos
	}
	n := copy(p, r.data[r.pos:r.pos+sz])
	r.pos += n
	if r.pos >= limit && r.eofData && r.faultAt < 0 && n > 0 {
		return n, io.EOF
	}
	return n, nil
}

func (c *C17Case) Run() (res stat.Result) {
	if c.Enc {
		return c.runEncoder()
	}
	data := c.input()
	ends := c.valueEnds()
	api := sonic.ConfigStd
	if c.UseNum {
		api = sonic.Config{EscapeHTML: true, SortMapKeys: true, CompactMarshaler: true, CopyString: true, ValidateString: true, UseNumber: true}.Froze()
	}
	r := &chunkReader{data: data, chunks: c.Chunks, eofData: c.EOFData, faultAt: c.FaultAt}
	dec := api.NewDecoder(r)
	type offsetter interface{ InputOffset() int64 }

	// expectation: which values are certainly complete before the fault
	certain, possible := len(c.Values), len(c.Values)
	if c.FaultAt >= 0 {
		certain, possible = 0, 0
		for i, e := range ends {
			switch {
			case e < c.FaultAt || (e == c.FaultAt && selfDelimiting(c.Values[i])):
				certain, possible = i+1, i+1
			case e == c.FaultAt:
				possible = i + 1 // a scalar ending exactly where the reader fails may or may not be delivered
			}
		}
	}
	fail := func(f string, a ...interface{}) stat.Result {
		msg := fmt.Sprintf(f, a...)
		if id := c17Classify(c, msg); id != "" {
			res.Known = append(res.Known, id)
			return res
		}
		res.Err = fmt.Errorf("stream %q chunks %v fault %d eofdata %v: %s", clipB(data), c.Chunks, c.FaultAt, c.EOFData, msg)
		return res
	}
	c.classes(&res, data, ends)
	var lastOff int64 = -1
	got := 0
	var termErr error
	for iter := 0; iter < len(c.Values)+3; iter++ {
		res.Sub++
		var err error
		var val interface{}
		var raw json.RawMessage
		if c.Dest == 0 {
			err = dec.Decode(&val)
		} else {
			err = dec.Decode(&raw)
		}
		if err != nil {
			termErr = err
			break
		}
		if got >= possible {
			return fail("Decode #%d succeeded (%v %s) but only %d values are available", got, val, raw, possible)
		}
		// compare with encoding/json on the value's own text
		if c.Dest == 0 {
			var want interface{}
			d := json.NewDecoder(strings.NewReader(c.Values[got]))
			if c.UseNum {
				d.UseNumber()
			}
			d.Decode(&want)
			if diff := deepEq(reflect.ValueOf(&want).Elem(), reflect.ValueOf(&val).Elem(), "", 0); diff != "" {
				if strings.Contains(c.Values[got], "-0") && knownListed("C19-minus-zero-integer-literal") && c19LeafDiffs(reflect.ValueOf(&want).Elem(), reflect.ValueOf(&val).Elem(), func(x, y reflect.Value) bool {
					return isFloatKind(x) && x.Float() == 0 && y.Float() == 0
				}) {
					res.Known = append(res.Known, "C19-minus-zero-integer-literal")
					got++
					if o, ok := dec.(offsetter); ok {
						lastOff = o.InputOffset()
					}
					continue
				}
				return fail("value #%d = %v, want %v (%s): %s", got, val, want, clipS(c.Values[got]), diff)
			}
		} else if dd := ref.TokensEqual([]byte(c.Values[got]), raw, false); dd != "" && (utf8.ValidString(c.Values[got]) || ref.TokensEqual(ref.CorrectUTF8InStrings([]byte(c.Values[got])), raw, false) != "") {
			// (a raw capture of text with invalid UTF-8 may be the original or the repaired copy)
			return fail("value #%d raw = %s, want %s: %s", got, clipB(raw), clipS(c.Values[got]), dd)
		}
		if o, ok := dec.(offsetter); ok {
			off := o.InputOffset()
			if off <= lastOff {
				return fail("Decode #%d succeeded without advancing InputOffset (%d -> %d)", got, lastOff, off)
			}
			if off != int64(ends[got]) && off < int64(ends[got]) {
				return fail("InputOffset %d after value #%d is before the end of that value (%d)", off, got, ends[got])
			}
			lastOff = off
		}
		got++
	}
	if termErr == nil {
		return fail("Decode returned nil %d times in a row on a stream of %d values (no terminal condition)", len(c.Values)+3, len(c.Values))
	}
	if got < certain {
		return fail("only %d of the %d complete values were delivered before the terminal error %v", got, certain, termErr)
	}
	tailStart := len(data) - len(c.Tail)
	dirtyTail := c.TailKind != "clean" && c.TailKind != "spaces"
	switch {
	case c.FaultAt >= 0 && (c.FaultAt <= tailStart || !dirtyTail):
		// only well-formed bytes were delivered before the reader failed
		if termErr != errSentinel {
			return fail("reader error not returned unchanged: got %v after %d values", termErr, got)
		}
	case c.FaultAt >= 0:
		// part of a malformed tail was delivered: its syntax error or the reader's error, but not a clean EOF
		if termErr == io.EOF {
			return fail("malformed tail cut by a reader fault reported as io.EOF")
		}
	case c.TailKind == "clean" || c.TailKind == "spaces":
		if termErr != io.EOF {
			return fail("clean end of stream reported as %v after %d values", termErr, got)
		}
	default:
		if termErr == io.EOF {
			return fail("%s tail %q reported as a clean end of stream (io.EOF) after %d values", c.TailKind, c.Tail, got)
		}
	}
	// the terminal condition is sticky
	var again interface{}
	if err := dec.Decode(&again); err == nil {
		return fail("Decode succeeded after the terminal error %v", termErr)
	}
	return res
}

func (c *C17Case) classes(res *stat.Result, data []byte, ends []int) {
	inToken := false
	// is there a chunk boundary strictly inside a value token?
	if c.FaultAt < 0 {
		pos := 0
		i := 0
		for pos < len(data) && i < 10000 {
			sz := c.Chunks[i%len(c.Chunks)]
			i++
			pos += sz
			off := len(c.Lead)
			for k, v := range c.Values {
				if pos > off && pos < off+len(v) {
					inToken = true
				}
				off += len(v) + len(c.Seps[k])
			}
		}
	}
	res.NonTrivial = len(c.Values) >= 2 && inToken || c.FaultAt >= 0 && len(c.Values) >= 1
	res.Classes = append(res.Classes, "tail:"+c.TailKind, fmt.Sprintf("nvalues=%d", len(c.Values)))
	if inToken {
		res.Classes = append(res.Classes, "boundary-in-token")
	}
	if !utf8.Valid(data) {
		res.Classes = append(res.Classes, "invalid-utf8-in-stream")
	}
	if c.FaultAt >= 0 {
		res.Classes = append(res.Classes, "reader-fault")
	}
	if c.EOFData {
		res.Classes = append(res.Classes, "eof-with-data")
	}
	for _, s := range c.Chunks {
		if s == 0 {
			res.Classes = append(res.Classes, "empty-read")
			break
		}
	}
	if len(data) > 4096 {
		res.Classes = append(res.Classes, "input>4096")
	}
}

// faultyWriter accepts at most max bytes per call and fails at call failCall.
type faultyWriter struct {
	buf       bytes.Buffer
	max       int
	failCall  int
	failShort int
	calls     int
}

func (w *faultyWriter) Write(p []byte) (int, error) {
	w.calls++
	if w.failCall > 0 && w.calls == w.failCall {
		n := w.failShort
		if n > len(p) {
			n = len(p)
		}
		w.buf.Write(p[:n])
		return n, errSentinel
	}
	if w.max > 0 && len(p) > w.max {
		// a short write must come with an error (io.Writer contract)
		w.buf.Write(p[:w.max])
		return w.max, io.ErrShortWrite
	}
	w.buf.Write(p)
	return len(p), nil
}

func (c *C17Case) runEncoder() (res stat.Result) {
	var v interface{}
	if err := json.Unmarshal([]byte(c.EncValue), &v); err != nil {
		res.Err = fmt.Errorf("harness: %v", err)
		return
	}
	opts := encoder.Options(c.EncMask)
	want, err := encoder.Encode(v, opts)
	if err != nil {
		res.Err = fmt.Errorf("Encode failed: %v", err)
		return
	}
	if c.EncIndent {
		var ib bytes.Buffer
		json.Indent(&ib, want, ">", "  ")
		want = ib.Bytes()
	}
	if c.EncMask&optNoEncoderNewline == 0 {
		want = append(append([]byte(nil), want...), '\n')
	}
	// reference run: a well-behaved writer tells how many Write calls a full delivery takes
	w0 := &faultyWriter{}
	e0 := encoder.NewStreamEncoder(w0)
	e0.Opts = opts
	if c.EncIndent {
		e0.SetIndent(">", "  ")
	}
	res.Sub++
	if err := e0.Encode(v); err != nil || !bytes.Equal(w0.buf.Bytes(), want) {
		res.Err = fmt.Errorf("stream Encode(%s, mask %#x, indent %v) wrote %q, %v; want %q", c.EncValue, c.EncMask, c.EncIndent, w0.buf.Bytes(), err, want)
		return
	}
	res.Classes = append(res.Classes, "encoder")
	res.NonTrivial = c.FailCall > 0 || c.WriteMax > 0
	w := &faultyWriter{max: c.WriteMax, failCall: c.FailCall, failShort: c.FailShort}
	e := encoder.NewStreamEncoder(w)
	e.Opts = opts
	if c.EncIndent {
		e.SetIndent(">", "  ")
	}
	res.Sub++
	gotErr := e.Encode(v)
	// what the writer saw must be a prefix of the expected bytes, and complete iff no write failed
	if !bytes.HasPrefix(want, w.buf.Bytes()) {
		res.Err = fmt.Errorf("stream Encode delivered %q, not a prefix of %q", w.buf.Bytes(), want)
		return
	}
	failed := (c.FailCall > 0 && w.calls >= c.FailCall) || (c.WriteMax > 0 && w.buf.Len() < len(want)) || (c.WriteMax > 0 && len(want) > c.WriteMax)
	wantErr := error(nil)
	if c.FailCall > 0 && w.calls >= c.FailCall {
		wantErr = errSentinel
		res.Classes = append(res.Classes, "writer-fault")
	}
	_ = failed
	if wantErr != nil && gotErr != wantErr {
		// a short write before the failing call may legitimately surface first
		if !(gotErr == io.ErrShortWrite && c.WriteMax > 0) {
			if id := c17Classify(c, "encoder-error-lost"); id != "" {
				res.Known = append(res.Known, id)
				return
			}
			res.Err = fmt.Errorf("stream Encode: writer failed at call %d of %d with the sentinel, Encode returned %v (delivered %q of %q)", c.FailCall, w.calls, gotErr, w.buf.Bytes(), want)
			return
		}
	}
	if wantErr == nil && c.WriteMax == 0 && (gotErr != nil || !bytes.Equal(w.buf.Bytes(), want)) {
		res.Err = fmt.Errorf("stream Encode on a healthy writer: %v, delivered %q, want %q", gotErr, w.buf.Bytes(), want)
		return
	}
	if gotErr == nil && !bytes.Equal(w.buf.Bytes(), want) {
		res.Err = fmt.Errorf("stream Encode returned nil but the writer received %q, want %q", w.buf.Bytes(), want)
	}
	return
}

// c17Classify maps a failure to a listed known finding.
func c17Classify(c *C17Case, msg string) string {
	return ""
}
