package props

import (
	"bytes"
	"encoding/json"
	"fmt"
	"sort"
	"strings"

	"github.com/bytedance/sonic"
	"github.com/bytedance/sonic/ast"
	"pgregory.net/rapid"
	"verif/harness/gen"
	"verif/harness/ref"
	"verif/harness/stat"
)

// ---- model: a plain ordered tree

type mNode struct {
	Kind  int    // ref.TObjOpen, ref.TArrOpen, or a scalar token kind
	Text  string // scalar: canonical JSON text
	Keys  []string
	Elems []*mNode
	Gone  []string // object: keys removed from it so far (operands for "getgone")
	Holes bool     // a child other than the last one was removed by index or key (the real node now has a soft-deleted slot)
}

func modelFromRef(doc []byte, n *ref.Node) *mNode {
	m := &mNode{Kind: n.Kind}
	switch n.Kind {
	case ref.TObjOpen:
		for i, k := range n.Keys {
			m.Keys = append(m.Keys, k.Str)
			m.Elems = append(m.Elems, modelFromRef(doc, n.Elems[i]))
		}
	case ref.TArrOpen:
		for _, e := range n.Elems {
			m.Elems = append(m.Elems, modelFromRef(doc, e))
		}
	default:
		m.Text = string(doc[n.Beg:n.End])
	}
	return m
}

func modelFromDoc(doc []byte) *mNode {
	r := ref.Parse(doc)
	if r == nil {
		return nil
	}
	return modelFromRef(doc, r)
}

func (m *mNode) render(buf *bytes.Buffer) {
	switch m.Kind {
	case ref.TObjOpen:
		buf.WriteByte('{')
		for i, k := range m.Keys {
			if i > 0 {
				buf.WriteByte(',')
			}
			kb, _ := json.Marshal(k)
			buf.Write(kb)
			buf.WriteByte(':')
			m.Elems[i].render(buf)
		}
		buf.WriteByte('}')
	case ref.TArrOpen:
		buf.WriteByte('[')
		for i, e := range m.Elems {
			if i > 0 {
				buf.WriteByte(',')
			}
			e.render(buf)
		}
		buf.WriteByte(']')
	default:
		buf.WriteString(m.Text)
	}
}

func (m *mNode) String() string {
	var b bytes.Buffer
	m.render(&b)
	return b.String()
}

func (m *mNode) isContainer() bool { return m.Kind == ref.TObjOpen || m.Kind == ref.TArrOpen }

func (m *mNode) firstKey(k string) int {
	for i, x := range m.Keys {
		if x == k {
			return i
		}
	}
	return -1
}

func (m *mNode) removeAt(i int) {
	m.Elems = append(m.Elems[:i], m.Elems[i+1:]...)
	if m.Kind == ref.TObjOpen {
		m.Gone = append(m.Gone, m.Keys[i])
		m.Keys = append(m.Keys[:i], m.Keys[i+1:]...)
	}
}

func (m *mNode) hasDupKeys() bool {
	seen := map[string]bool{}
	for _, k := range m.Keys {
		if seen[k] {
			return true
		}
		seen[k] = true
	}
	return false
}

// ---- case

type C15Op struct {
	Op  string `json:"op"`
	Cur int    `json:"cur"` // cursor seed: selects the node the operation applies to
	A   int    `json:"a,omitempty"`
	B   int    `json:"b,omitempty"`
	K   string `json:"k,omitempty"` // literal key for "missing key" operands
	V   string `json:"v,omitempty"` // JSON text of a value operand
}

type C15Case struct {
	Doc     []byte  `json:"doc"`
	DocText string  `json:"doc_text,omitempty"`
	Create  int     `json:"create"` // how the root node is obtained
	Ops     []C15Op `json:"ops"`
}

func init() { register("C15", func() Case { return &C15Case{} }) }

var c15CreateNames = []string{"NewRaw", "Get", "Get+LoadAll", "NewRawConcurrentRead", "Searcher{ConcurrentRead}", "Unmarshal(ast.Node)"}

var c15OpNames = []string{"get", "getmissing", "index", "indexpair", "indexorget", "len", "type", "values", "properties", "foreach", "set", "setnew", "setbyindex", "add", "unset", "unsetmissing", "unsetbyindex", "pop", "move", "sortkeys", "load", "marshal", "raw", "interface", "exists", "popn", "getgone"}

func drawC15(t *rapid.T) Case {
	c := &C15Case{}
	keyPool := []string{"a", "b", "c", "A", "", "k1", "k2", "x y", "é", "dup"}
	c.Doc = gen.ValidDoc(t, gen.DocOpt{Str: gen.StrOpt{MaxPieces: 2}, Wide: rapid.IntRange(0, 3).Draw(t, "wide") == 0, MaxDepth: 3, Nested: true, KeyPool: keyPool, Num: gen.NumOpt{}})
	if !json.Valid(c.Doc) {
		c.Doc = []byte(`{"a":[1,2,{"b":null}],"c":"x"}`)
	}
	// one case in five: a top-level object wide enough for the hash index (> 16 members), mostly distinct keys
	wideRoot := rapid.IntRange(0, 4).Draw(t, "wideRoot") == 0
	if wideRoot {
		var b bytes.Buffer
		b.WriteByte('{')
		nk := rapid.IntRange(15, 26).Draw(t, "nk")
		for i := 0; i < nk; i++ {
			if i > 0 {
				b.WriteByte(',')
			}
			k := fmt.Sprintf("k%02d", i)
			if rapid.IntRange(0, 11).Draw(t, "dupk") == 0 {
				k = fmt.Sprintf("k%02d", rapid.IntRange(0, nk-1).Draw(t, "dk"))
			}
			v := []string{"1", `"s"`, "null", "[1,2]", `{"a":1}`, "true"}[rapid.IntRange(0, 5).Draw(t, "wv")]
			fmt.Fprintf(&b, "%q:%s", k, v)
		}
		b.WriteByte('}')
		c.Doc = b.Bytes()
	}
	// one case in five: a top-level array of 3..9 small elements (index-based mutation sequences on one node)
	arrayRoot := !wideRoot && rapid.IntRange(0, 3).Draw(t, "arrayRoot") == 0
	if arrayRoot {
		var b bytes.Buffer
		b.WriteByte('[')
		nk := rapid.IntRange(3, 9).Draw(t, "na")
		for i := 0; i < nk; i++ {
			if i > 0 {
				b.WriteByte(',')
			}
			if rapid.IntRange(0, 3).Draw(t, "acont") == 0 {
				b.WriteString([]string{`[1,2,3,4]`, `{"a":1,"b":2}`, `[[],{}]`, `"s"`}[rapid.IntRange(0, 3).Draw(t, "av")])
			} else {
				fmt.Fprintf(&b, "%d", 10+i)
			}
		}
		b.WriteByte(']')
		c.Doc = b.Bytes()
	}
	c.Create = rapid.IntRange(0, len(c15CreateNames)-1).Draw(t, "create")
	n := rapid.IntRange(1, 14).Draw(t, "nops")
	if thorough() {
		n = rapid.IntRange(1, 40).Draw(t, "nopsT")
	}
	for i := 0; i < n; i++ {
		op := C15Op{Op: c15OpNames[rapid.IntRange(0, len(c15OpNames)-1).Draw(t, "op")]}
		if rapid.IntRange(0, 19).Draw(t, "copyload") == 0 {
			op.Op = "copyload" // kept rare: after it, failures are attributed to the listed copy finding
		}
		op.Cur = rapid.IntRange(0, 500).Draw(t, "cur")
		if (wideRoot || arrayRoot) && rapid.IntRange(0, 3).Draw(t, "atroot") != 0 {
			op.Cur = 0
		} else if i > 0 && rapid.Bool().Draw(t, "sticky") {
			op.Cur = c.Ops[i-1].Cur // stay on the node the previous operation used
		}
		if arrayRoot && rapid.Bool().Draw(t, "arrayop") {
			op.Op = []string{"unsetbyindex", "move", "move", "add", "pop", "index", "values", "setbyindex", "marshal", "foreach"}[rapid.IntRange(0, 9).Draw(t, "aop")]
		}
		op.A = rapid.IntRange(0, 45).Draw(t, "a")
		op.B = rapid.IntRange(0, 45).Draw(t, "b")
		op.K = []string{"nokey", "zz", "", "a ", "B"}[rapid.IntRange(0, 4).Draw(t, "k")]
		switch op.Op {
		case "set", "setnew", "setbyindex", "add":
			op.V = string(bytes.TrimSpace(gen.ValidDoc(t, gen.DocOpt{Str: gen.StrOpt{MaxPieces: 1}, MaxDepth: 1, MaxWidth: 2, NoSpace: true, KeyPool: keyPool})))
		}
		c.Ops = append(c.Ops, op)
	}
	if isPrintableUTF8(c.Doc) {
		c.DocText = string(c.Doc)
	}
	return c
}

// cursor resolves a seed to a node of the model and the matching real node.
// The real node is re-resolved from the root for every operation (the API
// documents that UnsetByIndex/Move invalidate element addresses).
func c15Cursor(root *ast.Node, model *mNode, seed int) (*ast.Node, *mNode, string, error) {
	levels := seed % 3
	seed /= 3
	rn, mn := root, model
	path := ""
	for l := 0; l < levels; l++ {
		if !mn.isContainer() || len(mn.Elems) == 0 {
			break
		}
		idx := seed % len(mn.Elems)
		seed /= 5
		byKey := mn.Kind == ref.TObjOpen && seed%2 == 0 && mn.firstKey(mn.Keys[idx]) == idx
		seed /= 2
		if byKey {
			rn = rn.Get(mn.Keys[idx])
			path += fmt.Sprintf("/%q", mn.Keys[idx])
		} else {
			rn = rn.Index(idx)
			path += fmt.Sprintf("/%d", idx)
		}
		mn = mn.Elems[idx]
		if rn == nil || !rn.Exists() || rn.Check() != nil {
			return nil, nil, path, fmt.Errorf("cursor %s: child that exists in the model is missing (%v)", path, rn.Check())
		}
	}
	return rn, mn, path, nil
}

func c15Value(v string) (ast.Node, *mNode) {
	return ast.NewRaw(v), modelFromDoc([]byte(v))
}

// c15Same compares a real node with a model node by serialisation.
func c15Same(rn *ast.Node, mn *mNode) string {
	b, err := rn.MarshalJSON()
	if err != nil {
		return fmt.Sprintf("MarshalJSON error %v, model %s", err, clipS(mn.String()))
	}
	if d := ref.TokensEqual([]byte(mn.String()), b, false); d != "" {
		return fmt.Sprintf("node %s, model %s: %s", clipB(b), clipS(mn.String()), d)
	}
	return ""
}

type c15Flags struct {
	mutated, readAfterMutation, lazyStart, dupKey, emptyKey, wide, copyLoaded, goneRead, moveWithHoles, opWithHoles bool
}

func c15KindToType(k int) int {
	return map[int]int{ref.TObjOpen: ast.V_OBJECT, ref.TArrOpen: ast.V_ARRAY, ref.TString: ast.V_STRING, ref.TNumber: ast.V_NUMBER, ref.TTrue: ast.V_TRUE, ref.TFalse: ast.V_FALSE, ref.TNull: ast.V_NULL}[k]
}

func (c *C15Case) Run() (res stat.Result) {
	model := modelFromDoc(c.Doc)
	if model == nil {
		res.Err = fmt.Errorf("harness: document does not parse")
		return
	}
	s := string(c.Doc)
	var root ast.Node
	var err error
	switch c.Create {
	case 0:
		root = ast.NewRaw(s)
	case 1:
		root, err = sonic.Get(c.Doc)
	case 2:
		root, err = sonic.Get(c.Doc)
		if err == nil {
			err = root.LoadAll()
		}
	case 3:
		root = ast.NewRawConcurrentRead(s)
	case 4:
		sr := ast.NewSearcher(s)
		sr.ConcurrentRead = true
		root, err = sr.GetByPath()
	default:
		err = sonic.Unmarshal(c.Doc, &root)
	}
	if err != nil || root.Check() != nil {
		res.Err = fmt.Errorf("creating the root with %s failed: %v %v", c15CreateNames[c.Create], err, root.Check())
		return
	}
	var fl c15Flags
	fl.lazyStart = c.Create != 2
	var walk func(m *mNode)
	walk = func(m *mNode) {
		if m.Kind == ref.TObjOpen {
			fl.dupKey = fl.dupKey || m.hasDupKeys()
			fl.wide = fl.wide || len(m.Keys) > 16
			for _, k := range m.Keys {
				fl.emptyKey = fl.emptyKey || k == ""
			}
		}
		for _, e := range m.Elems {
			walk(e)
		}
	}
	walk(model)

	for step, op := range c.Ops {
		res.Sub++
		rn, mn, path, cerr := c15Cursor(&root, model, op.Cur)
		what := fmt.Sprintf("step %d %s at %s (create %s)", step, op.Op, path, c15CreateNames[c.Create])
		fail := func(f string, a ...interface{}) stat.Result {
			msg := fmt.Sprintf(f, a...)
			if id := c15Classify(c, &fl, op, mn, msg); id != "" {
				res.Known = append(res.Known, id)
				c.finish(&res, &fl)
				return res
			}
			res.Err = fmt.Errorf("%s: %s\n model now: %s", what, msg, clipS(model.String()))
			return res
		}
		if cerr != nil {
			return fail("%v", cerr)
		}
		n := len(mn.Elems)
		fl.opWithHoles = fl.opWithHoles || mn.Holes
		switch op.Op {
		case "get":
			if mn.Kind != ref.TObjOpen || n == 0 {
				continue
			}
			k := mn.Keys[op.A%n]
			sub := rn.Get(k)
			if sub == nil || !sub.Exists() {
				return fail("Get(%q): missing, model has it", k)
			}
			if d := c15Same(sub, mn.Elems[mn.firstKey(k)]); d != "" {
				return fail("Get(%q): %s", k, d)
			}
			fl.readAfterMutation = fl.readAfterMutation || fl.mutated
		case "getmissing":
			if mn.Kind != ref.TObjOpen || mn.firstKey(op.K) >= 0 {
				continue
			}
			if sub := rn.Get(op.K); sub != nil && sub.Exists() {
				return fail("Get(%q): exists, model has no such key", op.K)
			}
		case "getgone":
			// a key that was removed from this object earlier: absent, unless a duplicate or a later Set brought it back
			if mn.Kind != ref.TObjOpen || len(mn.Gone) == 0 {
				continue
			}
			k := mn.Gone[op.A%len(mn.Gone)]
			sub := rn.Get(k)
			if wi := mn.firstKey(k); wi < 0 {
				if sub != nil && sub.Exists() {
					return fail("Get(%q) after its removal: exists, model has no such key", k)
				}
			} else {
				if sub == nil || !sub.Exists() {
					return fail("Get(%q): missing, model has it", k)
				}
				if d := c15Same(sub, mn.Elems[wi]); d != "" {
					return fail("Get(%q): %s", k, d)
				}
			}
			fl.readAfterMutation = true
			fl.goneRead = true
		case "index":
			if !mn.isContainer() {
				continue
			}
			i := op.A % (n + 1)
			sub := rn.Index(i)
			if i == n {
				if sub != nil && sub.Exists() {
					return fail("Index(%d): exists, model has %d children", i, n)
				}
				continue
			}
			if sub == nil || !sub.Exists() {
				return fail("Index(%d): missing, model has %d children", i, n)
			}
			if d := c15Same(sub, mn.Elems[i]); d != "" {
				return fail("Index(%d): %s", i, d)
			}
			fl.readAfterMutation = fl.readAfterMutation || fl.mutated
		case "indexpair":
			if mn.Kind != ref.TObjOpen || n == 0 {
				continue
			}
			i := op.A % n
			p := rn.IndexPair(i)
			if p == nil {
				return fail("IndexPair(%d): nil, model has %d members", i, n)
			}
			if p.Key != mn.Keys[i] {
				return fail("IndexPair(%d): key %q, model %q", i, p.Key, mn.Keys[i])
			}
			if d := c15Same(&p.Value, mn.Elems[i]); d != "" {
				return fail("IndexPair(%d): %s", i, d)
			}
		case "indexorget":
			if mn.Kind != ref.TObjOpen || n == 0 {
				continue
			}
			k := mn.Keys[op.A%n]
			hint := op.B % (n + 2)
			sub := rn.IndexOrGet(hint, k)
			// the documented result: the pair at hint if its key matches, else search by key (first occurrence)
			wi := mn.firstKey(k)
			if hint < n && mn.Keys[hint] == k {
				wi = hint
			}
			if sub == nil || !sub.Exists() {
				return fail("IndexOrGet(%d,%q): missing", hint, k)
			}
			if d := c15Same(sub, mn.Elems[wi]); d != "" {
				return fail("IndexOrGet(%d,%q): %s", hint, k, d)
			}
		case "len":
			if !mn.isContainer() {
				continue
			}
			l, err := rn.Len()
			if err == nil && l < n && l >= 0 && knownListed("C15-len-counts-parsed-children") {
				res.Known = append(res.Known, "C15-len-counts-parsed-children")
				continue
			}
			if err != nil || l != n {
				return fail("Len() = %d, %v; model has %d children", l, err, n)
			}
		case "copyload":
			// copy a child by value (as the iterator API does), load the copy, then read the original
			if !mn.isContainer() || n == 0 {
				continue
			}
			i := op.A % n
			child := rn.Index(i)
			if child == nil || !child.Exists() {
				return fail("Index(%d) missing", i)
			}
			cp := *child
			if d := c15Same(&cp, mn.Elems[i]); d != "" {
				return fail("copy of child %d: %s", i, d)
			}
			fl.copyLoaded = true
			if d := c15Same(rn.Index(i), mn.Elems[i]); d != "" {
				return fail("original child %d after loading its copy: %s", i, d)
			}
		case "type":
			want := c15KindToType(mn.Kind)
			if g := rn.TypeSafe(); g != want {
				return fail("TypeSafe() = %d, model kind wants %d", g, want)
			}
		case "exists":
			if !rn.Exists() || !rn.Valid() {
				return fail("Exists()/Valid() false on a node the model has")
			}
		case "values":
			if mn.Kind != ref.TArrOpen {
				continue
			}
			it, err := rn.Values()
			if err != nil {
				return fail("Values() error %v", err)
			}
			var v ast.Node
			i := 0
			for it.Next(&v) {
				if i >= n {
					return fail("Values() yields more than %d", n)
				}
				// Next copies the node: only the kind of the copy is read here (loading a copy of a lazy
				// container is the listed finding C15-lazy-node-copy-shares-parser; see op copyload)
				if g, w := v.TypeSafe(), c15KindToType(mn.Elems[i].Kind); g != w {
					return fail("Values() element %d has type %d, model %d", i, g, w)
				}
				i++
			}
			if i != n {
				return fail("Values() yields %d elements, model has %d", i, n)
			}
			// values compared through pointers
			j := 0
			var bad string
			rn.ForEach(func(sq ast.Sequence, node *ast.Node) bool {
				if j < n && bad == "" {
					bad = c15Same(node, mn.Elems[j])
				}
				j++
				return true
			})
			if bad != "" || j != n {
				return fail("ForEach over the array: %d elements (model %d) %s", j, n, bad)
			}
			fl.readAfterMutation = fl.readAfterMutation || fl.mutated
		case "properties", "foreach":
			if mn.Kind != ref.TObjOpen {
				continue
			}
			var keys []string
			var bad string
			if op.Op == "properties" {
				it, err := rn.Properties()
				if err != nil {
					return fail("Properties() error %v", err)
				}
				var p ast.Pair
				for it.Next(&p) {
					i := len(keys)
					keys = append(keys, p.Key)
					if i < n && bad == "" && p.Value.TypeSafe() != c15KindToType(mn.Elems[i].Kind) {
						bad = fmt.Sprintf("member %d has type %d", i, p.Value.TypeSafe())
					}
				}
			} else {
				err := rn.ForEach(func(sq ast.Sequence, node *ast.Node) bool {
					i := len(keys)
					if sq.Key != nil {
						keys = append(keys, *sq.Key)
					} else {
						keys = append(keys, "<nil key>")
					}
					if i < n && bad == "" {
						bad = c15Same(node, mn.Elems[i])
					}
					return true
				})
				if err != nil {
					return fail("ForEach() error %v", err)
				}
			}
			if strings.Join(keys, "\x00") != strings.Join(mn.Keys, "\x00") {
				return fail("%s yields keys %q, model %q", op.Op, keys, mn.Keys)
			}
			if bad != "" {
				return fail("%s value: %s", op.Op, bad)
			}
			fl.readAfterMutation = fl.readAfterMutation || fl.mutated
		case "set", "setnew":
			if mn.Kind != ref.TObjOpen {
				continue
			}
			k := op.K
			if op.Op == "set" && n > 0 {
				k = mn.Keys[op.A%n]
			}
			val, mv := c15Value(op.V)
			existed, err := rn.Set(k, val)
			wi := mn.firstKey(k)
			if err != nil || existed != (wi >= 0) {
				return fail("Set(%q, %s) = %v, %v; model says existed=%v", k, op.V, existed, err, wi >= 0)
			}
			if wi >= 0 {
				mn.Elems[wi] = mv
			} else {
				mn.Keys = append(mn.Keys, k)
				mn.Elems = append(mn.Elems, mv)
			}
			fl.mutated = true
			fl.emptyKey = fl.emptyKey || k == ""
		case "setbyindex":
			if !mn.isContainer() {
				continue
			}
			i := op.A % (n + 1)
			val, mv := c15Value(op.V)
			existed, err := rn.SetByIndex(i, val)
			if i == n {
				if err == nil {
					return fail("SetByIndex(%d) beyond the %d children succeeded (existed=%v)", i, n, existed)
				}
				continue
			}
			if err != nil || !existed {
				return fail("SetByIndex(%d, %s) = %v, %v", i, op.V, existed, err)
			}
			mn.Elems[i] = mv
			fl.mutated = true
		case "add":
			if mn.Kind != ref.TArrOpen {
				continue
			}
			val, mv := c15Value(op.V)
			if err := rn.Add(val); err != nil {
				return fail("Add(%s) error %v", op.V, err)
			}
			mn.Elems = append(mn.Elems, mv)
			fl.mutated = true
		case "unset", "unsetmissing":
			if mn.Kind != ref.TObjOpen {
				continue
			}
			k := op.K
			if op.Op == "unset" && n > 0 {
				k = mn.Keys[op.A%n]
			}
			wi := mn.firstKey(k)
			existed, err := rn.Unset(k)
			if err != nil || existed != (wi >= 0) {
				return fail("Unset(%q) = %v, %v; model says existed=%v", k, existed, err, wi >= 0)
			}
			if wi >= 0 {
				mn.Holes = mn.Holes || wi < n-1
				mn.removeAt(wi)
				fl.mutated = true
			}
		case "unsetbyindex":
			if !mn.isContainer() {
				continue
			}
			i := op.A % (n + 1)
			existed, err := rn.UnsetByIndex(i)
			if i == n {
				if err == nil && existed {
					return fail("UnsetByIndex(%d) beyond the %d children reported success", i, n)
				}
				continue
			}
			if err != nil || !existed {
				return fail("UnsetByIndex(%d) = %v, %v", i, existed, err)
			}
			mn.Holes = mn.Holes || i < n-1
			mn.removeAt(i)
			fl.mutated = true
		case "pop":
			if !mn.isContainer() {
				continue
			}
			if err := rn.Pop(); err != nil {
				return fail("Pop() error %v", err)
			}
			if n > 0 {
				mn.removeAt(n - 1)
				fl.mutated = true
			}
		case "popn":
			if !mn.isContainer() {
				continue
			}
			for k := 0; k < 1+op.B%6; k++ {
				if err := rn.Pop(); err != nil {
					return fail("Pop() error %v", err)
				}
				if len(mn.Elems) > 0 {
					mn.removeAt(len(mn.Elems) - 1)
					fl.mutated = true
				}
			}
		case "move":
			if mn.Kind != ref.TArrOpen || n < 2 {
				continue
			}
			dst, src := op.A%n, op.B%n
			fl.moveWithHoles = fl.moveWithHoles || mn.Holes && dst != src
			if err := rn.Move(dst, src); err != nil {
				return fail("Move(%d,%d) error %v", dst, src, err)
			}
			e := mn.Elems[src]
			mn.Elems = append(mn.Elems[:src], mn.Elems[src+1:]...)
			mn.Elems = append(mn.Elems[:dst], append([]*mNode{e}, mn.Elems[dst:]...)...)
			fl.mutated = true
		case "sortkeys":
			recurse := op.A%2 == 0
			if err := rn.SortKeys(recurse); err != nil {
				return fail("SortKeys(%v) error %v", recurse, err)
			}
			modelSortKeys(mn, recurse, true)
			fl.mutated = true
		case "load":
			var err error
			if op.A%2 == 0 {
				err = rn.Load()
			} else {
				err = rn.LoadAll()
			}
			if err != nil {
				return fail("Load error %v", err)
			}
		case "marshal":
			if d := c15Same(rn, mn); d != "" {
				return fail("MarshalJSON: %s", d)
			}
			fl.readAfterMutation = fl.readAfterMutation || fl.mutated
		case "raw":
			r, err := rn.Raw()
			if err != nil {
				return fail("Raw() error %v", err)
			}
			if d := ref.TokensEqual([]byte(mn.String()), []byte(r), false); d != "" {
				return fail("Raw() = %s, model %s: %s", clipS(r), clipS(mn.String()), d)
			}
		case "interface":
			var want interface{}
			if json.Unmarshal([]byte(mn.String()), &want) != nil {
				continue
			}
			got, err := rn.Interface()
			if err != nil {
				return fail("Interface() error %v", err)
			}
			wb, _ := json.Marshal(want)
			gb, _ := json.Marshal(got)
			if !bytes.Equal(wb, gb) {
				return fail("Interface() = %s, model %s", clipB(gb), clipB(wb))
			}
		}
		// invariant: the whole tree still serialises like the model (checked every few steps and at the end)
		if step%4 == 3 || step == len(c.Ops)-1 {
			if d := c15Same(&root, model); d != "" {
				return fail("after the step, root: %s", d)
			}
		}
	}
	c.finish(&res, &fl)
	return
}

func (c *C15Case) finish(res *stat.Result, fl *c15Flags) {
	res.NonTrivial = fl.mutated && fl.readAfterMutation && fl.lazyStart
	res.Classes = append(res.Classes, "create:"+c15CreateNames[c.Create])
	add := func(b bool, s string) {
		if b {
			res.Classes = append(res.Classes, s)
		}
	}
	add(fl.mutated, "mutated")
	add(fl.readAfterMutation, "read-after-mutation")
	add(fl.dupKey, "dup-key")
	add(fl.emptyKey, "empty-key")
	add(fl.wide, "wide>16")
	add(fl.copyLoaded, "copy-loaded")
	add(fl.moveWithHoles, "move-in-array-with-holes")
	add(fl.opWithHoles, "op-on-container-with-holes")
	add(fl.goneRead, "read-of-removed-key")
	add(fl.goneRead && fl.wide, "read-of-removed-key-wide")
	for _, op := range c.Ops {
		res.Classes = append(res.Classes, "op:"+op.Op)
	}
}

// modelSortKeys: stable sort of object members by key bytes; with recurse, objects reachable through
// objects and arrays are sorted as well. For an array root the implementation descends into containers.
func modelSortKeys(m *mNode, recurse bool, top bool) {
	switch m.Kind {
	case ref.TObjOpen:
		idx := make([]int, len(m.Keys))
		for i := range idx {
			idx[i] = i
		}
		sort.SliceStable(idx, func(a, b int) bool { return m.Keys[idx[a]] < m.Keys[idx[b]] })
		ks := make([]string, len(idx))
		es := make([]*mNode, len(idx))
		for i, j := range idx {
			ks[i], es[i] = m.Keys[j], m.Elems[j]
		}
		m.Keys, m.Elems = ks, es
		if recurse {
			for _, e := range m.Elems {
				modelSortKeys(e, true, false)
			}
		}
	case ref.TArrOpen:
		// SortKeys on an array: "recursively sorts children's children as long as a V_OBJECT node is found";
		// the implementation visits every container child and calls SortKeys(recurse) on it
		if top || recurse {
			for _, e := range m.Elems {
				if e.isContainer() {
					modelSortKeys(e, recurse, top)
				}
			}
		}
	}
}

// c15Classify maps a failure to a listed known finding.
func c15Classify(c *C15Case, fl *c15Flags, op C15Op, mn *mNode, msg string) string {
	if fl.copyLoaded && knownListed("C15-lazy-node-copy-shares-parser") {
		return "C15-lazy-node-copy-shares-parser"
	}
	return ""
}
