package props

import (
	"encoding/json"
	"fmt"
	"math"
	"os"
	"path/filepath"
	"strconv"
	"testing"

	"github.com/bytedance/sonic"
	"github.com/bytedance/sonic/encoder"
)

// Exhaustive sweeps for C19: where a numeric domain is small enough, every member is tried instead of a sample.
//
//   f32: all 2^32 float32 bit patterns - Marshal gives exactly encoding/json's literal (shortest digits that
//        read back, encoding/json's choice of fixed/exponent form), NaN/Inf are refused, and the literal
//        decodes back to the same bits;
//   i32/u32: all 2^32 int32 and uint32 values - literal equals strconv's, decodes back to the same value,
//        and the neighbouring out-of-range literals are refused by the narrower destinations.
//
// The thorough tier enumerates everything (each shard takes the blocks b with b mod nshards == shard, a block
// being the 65536 patterns that share their high 16 bits). The quick tier takes the 1/512 of the blocks selected
// by VERIF_SEED. A failure is written as an ordinary C19 case file (field "sweep") and replays through
// C19Case.Run.

// appendStdFloat32 formats like encoding/json's floatEncoder for 32 bits.
func appendStdFloat32(b []byte, f float32) []byte {
	abs := math.Abs(float64(f))
	fmtc := byte('f')
	if abs != 0 {
		if float32(abs) < 1e-6 || float32(abs) >= 1e21 {
			fmtc = 'e'
		}
	}
	b = strconv.AppendFloat(b, float64(f), fmtc, -1, 32)
	if fmtc == 'e' {
		// clean up e-09 to e-9
		n := len(b)
		if n >= 4 && b[n-4] == 'e' && b[n-3] == '-' && b[n-2] == '0' {
			b[n-2] = b[n-1]
			b = b[:n-1]
		}
	}
	return b
}

type sweepState struct {
	buf         []byte
	want        []byte
	known       int64 // members excused by a listed finding (counted in the report)
	knownSample string
}

// sweepOne checks one member of a sweep domain; "" = holds.
func (s *sweepState) sweepOne(kind string, bits uint32) string {
	switch kind {
	case "f32":
		f := math.Float32frombits(bits)
		s.buf = s.buf[:0]
		err := encoder.EncodeInto(&s.buf, f, 0)
		if f != f || math.IsInf(float64(f), 0) {
			if err == nil {
				return fmt.Sprintf("Marshal(float32 bits %#08x = %v) = %s, want an error", bits, f, s.buf)
			}
			return ""
		}
		s.want = appendStdFloat32(s.want[:0], f)
		if err != nil || string(s.buf) != string(s.want) {
			return fmt.Sprintf("Marshal(float32 bits %#08x) = %s (err %v), encoding/json gives %s", bits, s.buf, err, s.want)
		}
		var g float32
		if err := sonic.UnmarshalString(string(s.want), &g); err != nil || math.Float32bits(g) != bits {
			if bits == 0x80000000 && math.Float32bits(g) == 0 && knownListed("C19-minus-zero-integer-literal") {
				return ""
			}
			// listed finding: float32 destinations are converted through float64 (two roundings)
			if f64, e64 := strconv.ParseFloat(string(s.want), 64); err == nil && e64 == nil && math.Float32bits(float32(f64)) == math.Float32bits(g) && knownListed("C19-float32-double-rounding") {
				s.known++
				if s.knownSample == "" {
					s.knownSample = fmt.Sprintf("%s -> %#08x, exact %#08x", s.want, math.Float32bits(g), bits)
				}
				return ""
			}
			return fmt.Sprintf("Unmarshal(%s, &float32) = bits %#08x (err %v), want %#08x", s.want, math.Float32bits(g), err, bits)
		}
	case "i32":
		v := int32(bits)
		s.buf = s.buf[:0]
		err := encoder.EncodeInto(&s.buf, v, 0)
		s.want = strconv.AppendInt(s.want[:0], int64(v), 10)
		if err != nil || string(s.buf) != string(s.want) {
			return fmt.Sprintf("Marshal(int32 %d) = %s (err %v)", v, s.buf, err)
		}
		var g int32
		if err := sonic.UnmarshalString(string(s.want), &g); err != nil || g != v {
			return fmt.Sprintf("Unmarshal(%s, &int32) = %d (err %v)", s.want, g, err)
		}
		// the same literal into int16 / uint16: accepted exactly when it fits
		var h int16
		err = sonic.UnmarshalString(string(s.want), &h)
		if fits := int32(int16(v)) == v; (err == nil) != fits || fits && int32(h) != v {
			return fmt.Sprintf("Unmarshal(%s, &int16) = %d (err %v), fits=%v", s.want, h, err, fits)
		}
	case "u32":
		v := bits
		s.buf = s.buf[:0]
		err := encoder.EncodeInto(&s.buf, v, 0)
		s.want = strconv.AppendUint(s.want[:0], uint64(v), 10)
		if err != nil || string(s.buf) != string(s.want) {
			return fmt.Sprintf("Marshal(uint32 %d) = %s (err %v)", v, s.buf, err)
		}
		var g uint32
		if err := sonic.UnmarshalString(string(s.want), &g); err != nil || g != v {
			return fmt.Sprintf("Unmarshal(%s, &uint32) = %d (err %v)", s.want, g, err)
		}
		var h uint8
		err = sonic.UnmarshalString(string(s.want), &h)
		if fits := v <= math.MaxUint8; (err == nil) != fits || fits && uint32(h) != v {
			return fmt.Sprintf("Unmarshal(%s, &uint8) = %d (err %v), fits=%v", s.want, h, err, fits)
		}
		// beyond the type: 2^32 + v must be refused by uint32
		s.want = strconv.AppendUint(s.want[:0], uint64(v)+1<<32, 10)
		if err := sonic.UnmarshalString(string(s.want), &g); err == nil {
			return fmt.Sprintf("Unmarshal(%s, &uint32) accepted an out-of-range literal (got %d)", s.want, g)
		}
	}
	return ""
}

type sweepReport struct {
	Name       string `json:"name"`
	Domain     string `json:"domain"`
	Evaluated  int64  `json:"evaluated"`
	DomainSize int64  `json:"domain_size"`
	Blocks     int    `json:"blocks"`
	Complete   bool   `json:"complete"` // this shard did every block assigned to it in an exhaustive (thorough) run
	Sample     string `json:"sample"`
	Known      int64  `json:"known_finding_hits"` // members whose mismatch is the listed float32 double-rounding finding
	KnownEx    string `json:"known_finding_example,omitempty"`
}

func runC19Sweep(t *testing.T) {
	dir := os.Getenv("VERIF_OUT")
	if dir == "" {
		t.Skip("run through the vcheck driver")
	}
	shard, _ := strconv.Atoi(os.Getenv("VERIF_SHARD"))
	nsh, _ := strconv.Atoi(os.Getenv("VERIF_NSHARDS"))
	if nsh <= 0 {
		nsh = 1
	}
	seed, _ := strconv.ParseUint(os.Getenv("VERIF_SEED"), 10, 64)
	exhaustive := thorough()
	var reports []sweepReport
	st := &sweepState{}
	for _, kind := range []string{"f32", "i32", "u32"} {
		rep := sweepReport{Name: "C19-sweep-" + kind, DomainSize: 1 << 32, Complete: exhaustive,
			Domain: map[string]string{"f32": "all float32 bit patterns", "i32": "all int32 values", "u32": "all uint32 values"}[kind]}
		for b := 0; b < 65536; b++ {
			if b%nsh != shard {
				continue
			}
			if !exhaustive && (uint64(b)*0x9E3779B1+seed*0x85EBCA77)>>7%512 != 0 {
				continue
			}
			rep.Blocks++
			base := uint32(b) << 16
			for lo := uint32(0); lo < 65536; lo++ {
				bits := base | lo
				if msg := st.sweepOne(kind, bits); msg != "" {
					c := &C19Case{Sweep: kind, Bits: bits, Lit: "0"}
					os.WriteFile(filepath.Join(dir, "fail.case.json"), encodeCase("C19", c, msg), 0o644)
					t.Fatalf("C19 violated: %s", msg)
				}
			}
			rep.Evaluated += 65536
			if rep.Sample == "" {
				rep.Sample = fmt.Sprintf("%s %#08x..%#08x", kind, base, base|0xffff)
			}
		}
		rep.Known, rep.KnownEx = st.known, st.knownSample
		st.known, st.knownSample = 0, ""
		reports = append(reports, rep)
	}
	b, _ := json.Marshal(reports)
	os.WriteFile(filepath.Join(dir, "sweep.json"), b, 0o644)
}
