package props

import (
	"context"
	"encoding/json"
	"fmt"
	"os"
	"reflect"
	"runtime"
	"runtime/pprof"
	"strings"
	"sync"
	"sync/atomic"

	"github.com/bytedance/sonic"
	"pgregory.net/rapid"
	"verif/harness/cat"
	"verif/harness/gen"
	"verif/harness/ref"
	"verif/harness/stat"
)

// C10Case: values of types whose callbacks stress the runtime while sonic's code is on the stack.
type C10Case struct {
	Plan   []string `json:"plan"`              // what each callback does
	Seed   []string `json:"seed"`              // strings used to fill the value
	N      int      `json:"n"`                 // number of elements in slices/maps
	Env    int      `json:"env"`               // index into c10Envs
	Depth  int      `json:"depth"`             // the call is made from this many frames deep
	FreshG bool     `json:"fresh_g"`           // ... on a fresh goroutine (small stack)
	NoPlan bool     `json:"no_plan,omitempty"` // set by the parent for the reference run
	Arrays int      `json:"arrays,omitempty"`  // non-zero: also decode fully populated pointer arrays of many sizes into fresh destinations while a collector runs
}

func init() { register("C10", func() Case { return &C10Case{} }) }

var c10Envs = [][]string{
	{},
	{"GOGC=1"},
	{"GODEBUG=clobberfree=1,invalidptr=1"},
	{"GODEBUG=gccheckmark=1"},
	{"SONIC_SYNC_GC=1"},
	{"SONIC_USE_OPTDEC=1"},
	{"SONIC_ENCODER_USE_VM=1"},
	{"VERIF_BGGC=1", "GOGC=10"},
	{"VERIF_PROF=1"},
	{"SONIC_USE_OPTDEC=1", "SONIC_USE_FASTMAP=1", "GOGC=1"},
}

var c10Actions = []string{"gc", "freeos", "alloc:2", "alloc:8", "grow:100", "grow:3000", "grow:40000", "stack", "callers", "panic", "yield", "gc", "churn", "churn"}

func drawC10(t *rapid.T) Case {
	c := &C10Case{}
	n := rapid.IntRange(1, 3).Draw(t, "nactions")
	for i := 0; i < n; i++ {
		c.Plan = append(c.Plan, c10Actions[rapid.IntRange(0, len(c10Actions)-1).Draw(t, "action")])
	}
	if rapid.IntRange(0, 3).Draw(t, "collectthenreuse") == 0 {
		// the classic use-after-free detector: collect, then refill the freed small slots with junk
		c.Plan = append([]string{"gc", "churn"}, c.Plan[:n-1]...)
	}
	for i, k := 0, rapid.IntRange(1, 4).Draw(t, "nseed"); i < k; i++ {
		c.Seed = append(c.Seed, gen.GoString(t, false, false))
	}
	c.N = rapid.IntRange(0, 6).Draw(t, "n")
	c.Env = rapid.IntRange(0, len(c10Envs)-1).Draw(t, "env")
	c.Depth = []int{0, 0, 10, 200, 2000}[rapid.IntRange(0, 4).Draw(t, "depth")]
	c.FreshG = rapid.Bool().Draw(t, "freshg")
	if rapid.IntRange(0, 3).Draw(t, "arrays") == 0 {
		c.Arrays = rapid.IntRange(1, 1000).Draw(t, "arrayseed")
		for _, e := range c10Envs[c.Env] {
			if e == "SONIC_SYNC_GC=1" {
				c.Arrays = 0 // a forced collection per decoded value makes the 300 large arrays take minutes
			}
		}
	}
	return c
}

func (c *C10Case) value() *cat.SBox {
	s := func(i int) string { return c.Seed[i%len(c.Seed)] + fmt.Sprint(i) }
	b := &cat.SBox{Before: s(0), V: cat.SVal{A: 1, S: s(1)}, P: &cat.SVal{A: 2, S: s(2)}, T: cat.SKey{K: s(3)}, Q: &cat.SPtr{N: 21}, M: map[cat.SKey]cat.SVal{}, Tail: map[string]*string{}, Z: cat.SVal{A: 99, S: s(4)}, ZP: &cat.SPtr{N: 7}, ZS: "zs" + s(5)}
	for i := 0; i < c.N; i++ {
		b.L = append(b.L, cat.SVal{A: 10 + i, S: s(10 + i)})
		b.M[cat.SKey{K: s(20 + i)}] = cat.SVal{A: 20 + i, S: s(30 + i)}
		b.After = append(b.After, s(40+i))
		str := s(50 + i)
		b.Tail[s(60+i)] = &str
	}
	b.I = map[string]interface{}{"x": []interface{}{s(70), 1.5, nil}, "y": s(71)}
	return b
}

//go:noinline
func c10Deep(n int, f func()) int {
	var pad [128]byte
	pad[0] = byte(n)
	if n <= 0 {
		f()
		return int(pad[0])
	}
	return c10Deep(n-1, f) + int(pad[1])
}

var c10BgOnce sync.Once

// Transcript performs the encode and decode with the stress plan active (worker side).
func (c *C10Case) Transcript() string {
	c10BgOnce.Do(func() {
		if os.Getenv("VERIF_BGGC") == "1" {
			go func() {
				for {
					runtime.GC()
					runtime.Gosched()
				}
			}()
		}
		if os.Getenv("VERIF_PROF") == "1" {
			f, err := os.CreateTemp("", "c10prof")
			if err == nil {
				os.Remove(f.Name())
				runtime.SetCPUProfileRate(2000)
				pprof.StartCPUProfile(f)
			}
		}
	})
	var out string
	run := func() {
		v := c.value()
		if !c.NoPlan {
			cat.StressPlan = c.Plan
		} else {
			cat.StressPlan = nil
		}
		before := atomic.LoadInt64(&cat.StressHits)
		enc, err := sonic.ConfigStd.Marshal(v)
		if err != nil {
			out = "marshal error: " + err.Error()
			return
		}
		// decode from a string that is dropped afterwards: decoded strings may reference it and must keep it alive
		var back cat.SBox
		func() {
			doc := string(append([]byte(nil), enc...))
			err = sonic.ConfigDefault.UnmarshalFromString(doc, &back)
		}()
		cat.StressPlan = nil
		hits := atomic.LoadInt64(&cat.StressHits) - before
		if err != nil {
			out = "unmarshal error: " + err.Error()
			return
		}
		runtime.GC()
		garbage := make([][]byte, 0, 64)
		for i := 0; i < 64; i++ {
			garbage = append(garbage, make([]byte, 1<<16))
		}
		_ = garbage
		runtime.GC()
		re, err := json.Marshal(&back)
		if err != nil {
			out = "re-marshal error: " + err.Error()
			return
		}
		hit := "callbacks-ran"
		if hits == 0 && !c.NoPlan {
			hit = "NO-CALLBACK-RAN"
		}
		arrays := ""
		if c.Arrays != 0 {
			arrays = "[" + c10Arrays(c.Arrays) + "] "
		}
		out = fmt.Sprintf("%s %senc=%s back=%s", hit, arrays, enc, re)
	}
	call := func() { c10Deep(c.Depth, run) }
	if c.FreshG {
		done := make(chan struct{})
		go func() {
			defer close(done)
			call()
		}()
		<-done
	} else {
		call()
	}
	return out
}

// c10Arrays decodes fully populated arrays of pointers (six sizes between 0.5 and 16 KiB, compiled first) into
// fresh destinations that are all kept alive - the heap grows, so a destination's neighbour in its span has
// usually never been allocated - while collections run back to back: generated code that hands the runtime an
// address outside the destination object is caught in the act.
var c10SizeClasses = []int{576, 640, 704, 768, 896, 1024, 1152, 1280, 1408, 1536, 1792, 2048, 2304, 2688, 3072, 3200, 3456, 4096, 4864, 5376, 6144, 6528, 6784, 6912, 8192, 9472, 9728, 10240, 10880, 12288, 13568, 14336, 16384, 18432, 19072, 20480, 21760, 24576, 27264, 28672, 32768}

func c10Arrays(seed int) string {
	type spec struct {
		ty  reflect.Type
		doc string
		n   int
	}
	var specs []spec
	for k := 0; k < 6; k++ {
		// the element count is chosen so that array plus type header fills a size class of the Go allocator
		// exactly: the address one past the array is then the start of the neighbouring slot
		cls := c10SizeClasses[(seed+k*7)%len(c10SizeClasses)]
		n := cls/8 - 1
		elem, item := reflect.TypeOf((*int)(nil)), "7,"
		if k%3 == 1 {
			elem, item = reflect.TypeOf((*string)(nil)), `"s",`
		}
		sp := spec{ty: reflect.ArrayOf(n, elem), n: n, doc: "[" + strings.Repeat(item, n-1) + item[:len(item)-1] + "]"}
		if err := sonic.UnmarshalString(sp.doc, reflect.New(sp.ty).Interface()); err != nil {
			return fmt.Sprintf("arrays: [%d] error %v", n, err)
		}
		specs = append(specs, sp)
	}
	stop := make(chan struct{})
	done := make(chan struct{})
	go func() {
		defer close(done)
		for {
			select {
			case <-stop:
				return
			default:
				runtime.GC()
			}
		}
	}()
	defer func() { close(stop); <-done }()
	var keep []reflect.Value
	for i := 0; i < 300; i++ {
		sp := specs[i%len(specs)]
		dst := reflect.New(sp.ty)
		if err := sonic.UnmarshalString(sp.doc, dst.Interface()); err != nil {
			return fmt.Sprintf("arrays: [%d] error %v", sp.n, err)
		}
		if dst.Elem().Index(0).IsNil() || dst.Elem().Index(sp.n-1).IsNil() {
			return fmt.Sprintf("arrays: [%d] element left nil", sp.n)
		}
		keep = append(keep, dst)
	}
	runtime.KeepAlive(keep)
	return "arrays ok"
}

func (c *C10Case) Run() (res stat.Result) {
	res.Sub = 2
	res.Classes = append(res.Classes, "env:"+strings.Join(c10Envs[c.Env], ","))
	if c.Arrays != 0 {
		res.Classes = append(res.Classes, "fresh-pointer-arrays")
	}
	for _, a := range c.Plan {
		res.Classes = append(res.Classes, "action:"+a)
	}
	// reference: no stress, this process, encoding/json-compatible output
	plain := *c
	plain.NoPlan = true
	plain.Depth, plain.FreshG = 0, false
	want := wireForm(plain.Transcript())
	stdEnc, _ := json.Marshal(c.value())
	if i, j := strings.Index(want, "enc="), strings.Index(want, " back="); i >= 0 && j > i {
		// ConfigStd output must be token-equal to encoding/json, and what was decoded back re-encodes to the same
		if d := ref.TokensEqual(stdEnc, []byte(want[i+4:j]), false); d != "" {
			res.Err = fmt.Errorf("reference run differs from encoding/json: %s", d)
			return
		}
		if d := ref.TokensEqual(stdEnc, []byte(want[j+6:]), false); d != "" {
			res.Err = fmt.Errorf("reference run: decoded value re-encodes differently: %s", d)
			return
		}
	} else {
		res.Err = fmt.Errorf("reference run failed: %s", clipS(want))
		return
	}
	w, err := getWorker(append([]string{"VERIF_C10=1"}, c10Envs[c.Env]...)...)
	if err != nil {
		panic("harness: cannot start worker: " + err.Error())
	}
	got, err := w.ask("C10", c)
	if err != nil {
		if _, ok := err.(errWorkerTimeout); ok {
			res.Inconclusive = fmt.Sprintf("C10 worker %v: %v", c10Envs[c.Env], err)
			return
		}
		res.Err = fmt.Errorf("worker under %v with plan %v: %v", c10Envs[c.Env], c.Plan, err)
		return
	}
	res.NonTrivial = strings.HasPrefix(got, "callbacks-ran")
	if strings.HasPrefix(got, "NO-CALLBACK-RAN") {
		res.Err = fmt.Errorf("no callback executed the stress plan (harness/generator problem): %s", clipS(got))
		return
	}
	if strings.TrimPrefix(got, "callbacks-ran ") != strings.TrimPrefix(want, "callbacks-ran ") {
		res.Err = fmt.Errorf("result under stress (env %v, plan %v, depth %d, fresh goroutine %v) differs from the unstressed result:\n stressed: %s\n plain:    %s", c10Envs[c.Env], c.Plan, c.Depth, c.FreshG, clipS(got), clipS(want))
	}
	_ = reflect.TypeOf
	_ = context.Background
	return
}
