package props

import (
	"encoding/json"
	"fmt"
	"reflect"
	"sync"

	"pgregory.net/rapid"
	"verif/harness/gen"
	"verif/harness/tv"
)

// TypedValue is a (type, value) pair as data.
type TypedValue struct {
	T tv.TypeSpec     `json:"t"`
	V json.RawMessage `json:"v"`
}

// Materialise builds the Go type and value. The returned value is addressable.
func (tvc *TypedValue) Materialise() (reflect.Type, reflect.Value, error) {
	ty, err := tv.Build(tvc.T)
	if err != nil {
		return nil, reflect.Value{}, err
	}
	var d interface{}
	if len(tvc.V) > 0 {
		if err := json.Unmarshal(tvc.V, &d); err != nil {
			return nil, reflect.Value{}, fmt.Errorf("value dump: %v", err)
		}
	}
	v, err := tv.Load(ty, d)
	return ty, v, err
}

// drawTypedValue draws a type of the flavour and a value for it; types that
// reflect cannot realise are replaced (not rejected) so no draw is wasted.
func drawTypedValue(t *rapid.T, to gen.TypeOpt, vo gen.ValOpt) (TypedValue, reflect.Type, reflect.Value) {
	spec := gen.Type(t, to)
	ty, err := tv.Build(spec)
	if err != nil {
		spec = tv.TypeSpec{K: "cat", Name: "Omit"}
		ty, _ = tv.Build(spec)
	}
	v := gen.Value(t, ty, vo)
	b, err := json.Marshal(tv.Dump(v))
	if err != nil {
		panic(err)
	}
	return TypedValue{T: spec, V: b}, ty, v
}

var (
	seenTypesMu sync.Mutex
	seenTypes   = map[reflect.Type]bool{}
)

// firstUse reports (and records) whether ty is new to this process.
func firstUse(ty reflect.Type) int {
	seenTypesMu.Lock()
	defer seenTypesMu.Unlock()
	if seenTypes[ty] {
		return 0
	}
	seenTypes[ty] = true
	return 1
}

// typeFeatures summarises what a type contains, for class histograms.
type typeFeatures struct {
	structs, maps, slices, ptrs, ifaces, cats, embedded, strOpt, omit int
	catNames                                                          map[string]bool
}

func featuresOf(s tv.TypeSpec, f *typeFeatures) {
	if f.catNames == nil {
		f.catNames = map[string]bool{}
	}
	switch s.K {
	case "struct":
		f.structs++
		for _, fl := range s.Fields {
			if fl.Emb {
				f.embedded++
			}
			if containsOpt(fl.Tag, "string") {
				f.strOpt++
			}
			if containsOpt(fl.Tag, "omitempty") {
				f.omit++
			}
			featuresOf(fl.T, f)
		}
	case "map":
		f.maps++
		featuresOf(*s.Key, f)
		featuresOf(*s.Elem, f)
	case "slice", "array":
		f.slices++
		featuresOf(*s.Elem, f)
	case "ptr":
		f.ptrs++
		featuresOf(*s.Elem, f)
	case "iface":
		f.ifaces++
	case "cat":
		f.cats++
		f.catNames[s.Name] = true
	}
}

func containsOpt(tag, opt string) bool {
	st := reflect.StructTag(tag).Get("json")
	first := true
	for len(st) > 0 {
		i := 0
		for i < len(st) && st[i] != ',' {
			i++
		}
		if !first && st[:i] == opt {
			return true
		}
		first = false
		if i < len(st) {
			st = st[i+1:]
		} else {
			st = ""
		}
	}
	return false
}

func (f *typeFeatures) classes() []string {
	var cs []string
	add := func(c bool, n string) {
		if c {
			cs = append(cs, n)
		}
	}
	add(f.structs > 0, "has-struct")
	add(f.maps > 0, "has-map")
	add(f.slices > 0, "has-slice")
	add(f.ptrs > 0, "has-ptr")
	add(f.ifaces > 0, "has-iface")
	add(f.embedded > 0, "has-embedded")
	add(f.strOpt > 0, "has-string-opt")
	add(f.omit > 0, "has-omitempty")
	for n := range f.catNames {
		cs = append(cs, "cat:"+n)
	}
	return cs
}
