package props

import (
	"bytes"
	"encoding/json"
	"fmt"
	"math"
	"reflect"
	"regexp"
	"sort"
	"strings"
	"unicode/utf8"

	"github.com/bytedance/sonic"
	"github.com/bytedance/sonic/decoder"
	"github.com/bytedance/sonic/encoder"
	"pgregory.net/rapid"
	"verif/harness/gen"
	"verif/harness/ref"
	"verif/harness/stat"
	"verif/harness/tv"
)

// C18Case: one configuration switch toggled against a random setting of the
// others, or one family of equivalent entry points.
type C18Case struct {
	Switch string `json:"switch"` // name of the Config field toggled, or "entry-enc" / "entry-dec"
	Base   int    `json:"base"`   // bits for the other switches, see c18Config
	TypedValue
	Doc     []byte `json:"doc,omitempty"`
	DocText string `json:"doc_text,omitempty"`
}

func init() { register("C18", func() Case { return &C18Case{} }) }

var c18EncSwitches = []string{"EscapeHTML", "SortMapKeys", "CompactMarshaler", "NoQuoteTextMarshaler", "NoNullSliceOrMap", "ValidateString", "NoValidateJSONMarshaler", "NoEncoderNewline", "EncodeNullForInfOrNan"}
var c18DecSwitches = []string{"UseInt64", "UseNumber", "UseUnicodeErrors", "DisallowUnknownFields", "CopyString", "ValidateStringDec", "NoValidateJSONSkip", "CaseSensitive"}
var c18All = append(append(append([]string{}, c18EncSwitches...), c18DecSwitches...), "entry-enc", "entry-dec")

// c18Config builds a Config from base bits with one switch forced.
func c18Config(base int, sw string, on bool) sonic.Config {
	bit := func(i uint) bool { return base&(1<<i) != 0 }
	c := sonic.Config{
		EscapeHTML: bit(0), SortMapKeys: bit(1), CompactMarshaler: bit(2), NoQuoteTextMarshaler: false, NoNullSliceOrMap: bit(4),
		ValidateString: bit(5), NoValidateJSONMarshaler: bit(6), NoEncoderNewline: bit(7), EncodeNullForInfOrNan: bit(8),
		UseNumber: bit(9), UseUnicodeErrors: bit(11), DisallowUnknownFields: bit(12), CopyString: bit(13), NoValidateJSONSkip: false, CaseSensitive: bit(15),
	}
	c.UseInt64 = bit(10) && !c.UseNumber
	switch sw {
	case "EscapeHTML":
		c.EscapeHTML = on
	case "SortMapKeys":
		c.SortMapKeys = on
	case "CompactMarshaler":
		c.CompactMarshaler = on
	case "NoQuoteTextMarshaler":
		c.NoQuoteTextMarshaler = on
	case "NoNullSliceOrMap":
		c.NoNullSliceOrMap = on
	case "ValidateString", "ValidateStringDec":
		c.ValidateString = on
	case "NoValidateJSONMarshaler":
		c.NoValidateJSONMarshaler = on
	case "NoEncoderNewline":
		c.NoEncoderNewline = on
	case "EncodeNullForInfOrNan":
		c.EncodeNullForInfOrNan = on
	case "UseInt64":
		c.UseInt64, c.UseNumber = on, false
	case "UseNumber":
		c.UseNumber, c.UseInt64 = on, false
	case "UseUnicodeErrors":
		c.UseUnicodeErrors = on
	case "DisallowUnknownFields":
		c.DisallowUnknownFields = on
		c.CaseSensitive = false // the oracle for "unknown" is encoding/json's (case-insensitive) matching
	case "CopyString":
		c.CopyString = on
	case "NoValidateJSONSkip":
		c.NoValidateJSONSkip = on
	case "CaseSensitive":
		c.CaseSensitive = on
	}
	return c
}

type c18Flat struct {
	Alpha  int    `json:"alpha"`
	Beta   string `json:"Beta"`
	Gamma  bool
	DeltaX float64 `json:"deltaX"`
	Ab     int     `json:"ab"`
}

func drawC18(t *rapid.T) Case {
	c := &C18Case{}
	c.Switch = c18All[rapid.IntRange(0, len(c18All)-1).Draw(t, "switch")]
	c.Base = rapid.IntRange(0, 1<<16-1).Draw(t, "base")
	isEnc := c.Switch == "entry-enc"
	for _, s := range c18EncSwitches {
		isEnc = isEnc || s == c.Switch
	}
	if isEnc {
		to := gen.TypeOpt{Flav: gen.FlavRoundTrip, MaxDepth: 3}
		vo := gen.ValOpt{RoundTrip: true, HTMLFree: false}
		switch c.Switch {
		case "ValidateString":
			vo.InvalidUTF8 = true
			to.NoCat = true
		case "EncodeNullForInfOrNan":
			vo.NaN = true
			to.NoCat = true
		case "SortMapKeys":
			c.Base |= 0 // maps come from the type generator
		}
		c.TypedValue, _, _ = drawTypedValue(t, to, vo)
		return c
	}
	// decoder side
	strOpt := gen.StrOpt{}
	switch c.Switch {
	case "UseUnicodeErrors":
		strOpt.LoneSurr = true
	case "ValidateStringDec":
		strOpt.InvalidUTF8, strOpt.Control = true, rapid.IntRange(0, 3).Draw(t, "ctl") == 0
	}
	if c.Switch == "CaseSensitive" {
		c.T, _ = tv.SpecOf(reflect.TypeOf(c18Flat{}))
		c.T = tv.TypeSpec{K: "cat", Name: "Omit"} // placeholder, the flat struct is used directly in Run
		keys := []string{"alpha", "Alpha", "ALPHA", "Beta", "beta", "Gamma", "gamma", "deltaX", "deltax", "DELTAX", "ab", "Ab", "AB", "other"}
		var sb strings.Builder
		sb.WriteByte('{')
		n := rapid.IntRange(0, 6).Draw(t, "nk")
		for i := 0; i < n; i++ {
			if i > 0 {
				sb.WriteByte(',')
			}
			k := keys[rapid.IntRange(0, len(keys)-1).Draw(t, "ck")]
			var v string
			switch strings.ToLower(k) {
			case "alpha", "ab":
				v = fmt.Sprint(rapid.IntRange(1, 99).Draw(t, "iv"))
			case "beta":
				v = `"s` + fmt.Sprint(i) + `"`
			case "gamma":
				v = "true"
			case "deltax":
				v = fmt.Sprint(rapid.IntRange(1, 9).Draw(t, "fv")) + ".5"
			default:
				v = "null"
			}
			fmt.Fprintf(&sb, "%q:%s", k, v)
		}
		sb.WriteByte('}')
		c.Doc = []byte(sb.String())
		c.DocText = sb.String()
		return c
	}
	to := gen.TypeOpt{Flav: gen.FlavDecode, MaxDepth: 3, NoCat: true}
	c.T = gen.Type(t, to)
	ty, err := tv.Build(c.T)
	if err != nil {
		c.T = tv.TypeSpec{K: "iface"}
		ty, _ = tv.Build(c.T)
	}
	if (c.Switch == "UseUnicodeErrors" || c.Switch == "CopyString" || c.Switch == "UseNumber" || c.Switch == "UseInt64" || c.Switch == "entry-dec") && rapid.Bool().Draw(t, "ifaceroot") {
		c.T = tv.TypeSpec{K: "iface"}
		ty, _ = tv.Build(c.T)
	}
	c.Doc = gen.DocFor(t, ty, gen.DocForOpt{Str: strOpt, Perturb: 20})
	if isPrintableUTF8(c.Doc) {
		c.DocText = string(c.Doc)
	}
	return c
}

var c18MinusZeroLit = regexp.MustCompile(`-0([^.eE0-9]|$)`)

// ---- helpers

func hasNaNInf(v reflect.Value) bool {
	found := false
	mutateValue(copyValue(v), reflect.StructField{}, func(x reflect.Value, _ reflect.StructField) {
		if isFloatKind(x) && (math.IsNaN(x.Float()) || math.IsInf(x.Float(), 0)) {
			found = true
		}
	}, 0)
	return found
}

func hasNilSliceOrMap(v reflect.Value) bool {
	found := false
	mutateValue(copyValue(v), reflect.StructField{}, func(x reflect.Value, _ reflect.StructField) {
		if (x.Kind() == reflect.Slice || x.Kind() == reflect.Map) && x.IsNil() {
			found = true
		}
	}, 0)
	return found
}

func hasInvalidUTF8String(v reflect.Value) bool {
	found := false
	var walk func(x reflect.Value, d int)
	walk = func(x reflect.Value, d int) {
		if d > 50 || found {
			return
		}
		switch x.Kind() {
		case reflect.String:
			found = found || !utf8.ValidString(x.String())
		case reflect.Ptr, reflect.Interface:
			if !x.IsNil() {
				walk(x.Elem(), d+1)
			}
		case reflect.Slice, reflect.Array:
			for i := 0; i < x.Len(); i++ {
				walk(x.Index(i), d+1)
			}
		case reflect.Map:
			for _, k := range x.MapKeys() {
				walk(k, d+1)
				walk(x.MapIndex(k), d+1)
			}
		case reflect.Struct:
			for i := 0; i < x.NumField(); i++ {
				walk(x.Field(i), d+1)
			}
		}
	}
	walk(v, 0)
	return found
}

// sameModuloMapOrder: two JSON texts with the same members; where the key order of an object differs,
// the second must be byte-sorted.
func sortedWhereReordered(off, on []byte) string {
	a, b := ref.Parse(off), ref.Parse(on)
	if a == nil || b == nil {
		return "output does not parse"
	}
	var cmp func(x, y *ref.Node) string
	cmp = func(x, y *ref.Node) string {
		if x.Kind != y.Kind || len(x.Elems) != len(y.Elems) {
			return "shape differs"
		}
		switch x.Kind {
		case ref.TObjOpen:
			same := true
			for i := range x.Keys {
				if x.Keys[i].Str != y.Keys[i].Str {
					same = false
				}
			}
			if same {
				for i := range x.Elems {
					if d := cmp(x.Elems[i], y.Elems[i]); d != "" {
						return d
					}
				}
				return ""
			}
			// reordered: must be a permutation, sorted by key bytes in `on`
			ks := make([]string, len(y.Keys))
			for i, k := range y.Keys {
				ks[i] = k.Str
			}
			if !sort.StringsAreSorted(ks) {
				return fmt.Sprintf("object reordered but not byte-sorted: %q", ks)
			}
			idx := map[string]int{}
			for i, k := range x.Keys {
				idx[k.Str] = i
			}
			for j, k := range y.Keys {
				i, ok := idx[k.Str]
				if !ok {
					return "key set differs"
				}
				if d := cmp(x.Elems[i], y.Elems[j]); d != "" {
					return d
				}
			}
			return ""
		case ref.TArrOpen:
			for i := range x.Elems {
				if d := cmp(x.Elems[i], y.Elems[i]); d != "" {
					return d
				}
			}
			return ""
		default:
			if !bytes.Equal(off[x.Beg:x.End], on[y.Beg:y.End]) {
				return "scalar differs"
			}
			return ""
		}
	}
	return cmp(a, b)
}

func (c *C18Case) Run() (res stat.Result) {
	fail := func(f string, a ...interface{}) stat.Result {
		res.Err = fmt.Errorf("switch %s base %#x: %s", c.Switch, c.Base, fmt.Sprintf(f, a...))
		return res
	}
	res.Classes = append(res.Classes, "switch:"+c.Switch)
	off := c18Config(c.Base, c.Switch, false).Froze()
	on := c18Config(c.Base, c.Switch, true).Froze()
	offCfg := c18Config(c.Base, c.Switch, false)

	isEnc := c.Switch == "entry-enc"
	for _, s := range c18EncSwitches {
		isEnc = isEnc || s == c.Switch
	}
	if isEnc {
		ty, v, err := c.Materialise()
		if err != nil {
			return fail("harness: %v", err)
		}
		res.Programs = firstUse(ty)
		// map iteration order is only defined with SortMapKeys: compare byte-wise only when it is on in the base
		sorted := offCfg.SortMapKeys || !typeHasMapOrIface(ty, 0)
		x := v.Interface()
		res.Sub += 2
		ob, oe := off.Marshal(x)
		nb, ne := on.Marshal(x)
		feature := false
		switch c.Switch {
		case "entry-enc":
			return c.runEntryEnc(x, offCfg, res)
		case "EscapeHTML":
			if (oe == nil) != (ne == nil) {
				return fail("error parity: off %v on %v", oe, ne)
			}
			if oe != nil || !sorted {
				return res
			}
			var want bytes.Buffer
			json.HTMLEscape(&want, ob)
			feature = !bytes.Equal(want.Bytes(), ob)
			if !bytes.Equal(want.Bytes(), nb) {
				return fail("on = %s, want json.HTMLEscape(off) = %s", clipB(nb), clipB(want.Bytes()))
			}
		case "SortMapKeys":
			if (oe == nil) != (ne == nil) {
				return fail("error parity: off %v on %v", oe, ne)
			}
			if oe != nil {
				return res
			}
			if d := sortedWhereReordered(ob, nb); d != "" {
				return fail("%s\n off %s\n on  %s", d, clipB(ob), clipB(nb))
			}
			nb2, _ := on.Marshal(x)
			if !bytes.Equal(nb, nb2) {
				return fail("sorted output is not deterministic: %s vs %s", clipB(nb), clipB(nb2))
			}
			feature = !bytes.Equal(ob, nb)
		case "NoNullSliceOrMap":
			if (oe == nil) != (ne == nil) {
				return fail("error parity: off %v on %v", oe, ne)
			}
			if oe != nil || !sorted {
				return res
			}
			feature = hasNilSliceOrMap(v)
			w := copyValue(v)
			c04Norm(w, reflect.StructField{}, optNoNullSliceOrMap, 0)
			// c04Norm also folds pointers to null: re-derive the expectation by marshaling the de-nil'ed value with the switch off
			if hasNilByteSlice(v) {
				// a nil []byte becomes [] (the option's wording) while an empty one stays "": not expressible as off(denil(v))
				if !json.Valid(nb) {
					return fail("on produced malformed text %s", clipB(nb))
				}
				return res
			}
			w2 := copyValue(v)
			denil(w2)
			wb, werr := off.Marshal(w2.Interface())
			if werr != nil {
				return res
			}
			if !bytes.Equal(wb, nb) {
				return fail("on = %s, want off(denil(v)) = %s", clipB(nb), clipB(wb))
			}
		case "EncodeNullForInfOrNan":
			feature = hasNaNInf(v)
			if !feature {
				if (oe == nil) != (ne == nil) || (sorted && !bytes.Equal(ob, nb)) {
					return fail("no NaN/Inf in the value but outputs differ: %s / %s (%v %v)", clipB(ob), clipB(nb), oe, ne)
				}
				return res
			}
			if oe == nil {
				return fail("off accepted a value holding NaN/Inf: %s", clipB(ob))
			}
			if ne != nil {
				return fail("on still fails: %v", ne)
			}
			if !json.Valid(nb) {
				return fail("on produced malformed text %s", clipB(nb))
			}
			// expectation: the same value with NaN/Inf replaced by a marker float, marker text replaced by null
			if sorted && !typeHasStringOpt(ty, 0) {
				w := copyValue(v)
				const marker = 1.2345678912345e+300
				mutateValue(w, reflect.StructField{}, func(f reflect.Value, _ reflect.StructField) {
					if isFloatKind(f) && f.CanSet() && (math.IsNaN(f.Float()) || math.IsInf(f.Float(), 0)) && f.Kind() == reflect.Float64 {
						f.SetFloat(marker)
					}
				}, 0)
				if !hasNaNInf(w) {
					wb, werr := off.Marshal(w.Interface())
					if werr == nil {
						want := bytes.ReplaceAll(wb, []byte("1.2345678912345e+300"), []byte("null"))
						if !bytes.Equal(want, nb) {
							return fail("on = %s, want %s", clipB(nb), clipB(want))
						}
					}
				}
			}
		case "ValidateString":
			if (oe == nil) != (ne == nil) {
				return fail("error parity: off %v on %v", oe, ne)
			}
			if oe != nil || !sorted {
				return res
			}
			feature = hasInvalidUTF8String(v)
			if !feature {
				if !bytes.Equal(ob, nb) {
					return fail("no invalid UTF-8 in the value but outputs differ: %s / %s", clipB(ob), clipB(nb))
				}
				return res
			}
			want := ref.CorrectUTF8InStrings(ob)
			// the replacement may be spelled as an escape: compare strings by denoted value, the rest byte-wise
			if d := ref.TokensEqual(want, nb, false); d != "" {
				return fail("on = %q, want off with invalid bytes replaced = %q: %s", clipB(nb), clipB(want), d)
			}
			if !utf8.Valid(nb) {
				return fail("on still contains invalid UTF-8: %q", clipB(nb))
			}
		case "CompactMarshaler", "NoValidateJSONMarshaler", "NoEncoderNewline", "NoQuoteTextMarshaler":
			if (oe == nil) != (ne == nil) {
				return fail("error parity: off %v on %v", oe, ne)
			}
			if oe != nil || !sorted {
				return res
			}
			switch c.Switch {
			case "CompactMarshaler":
				var a, b bytes.Buffer
				json.Compact(&a, ob)
				json.Compact(&b, nb)
				feature = !bytes.Equal(ob, nb)
				if !bytes.Equal(a.Bytes(), b.Bytes()) {
					return fail("outputs differ by more than white space: %s / %s", clipB(ob), clipB(nb))
				}
				if specHasCat(c.T, map[string]bool{"MSpace": true}) && bytes.Contains(nb, []byte(" { ")) {
					return fail("marshaler output not compacted: %s", clipB(nb))
				}
				if !specHasCat(c.T, map[string]bool{"MSpace": true}) && feature {
					return fail("no white-space producing marshaler in the value but outputs differ: %s / %s", clipB(ob), clipB(nb))
				}
			case "NoQuoteTextMarshaler":
				feature = specHasCat(c.T, map[string]bool{"TQuoted": true})
				if specHasCat(c.T, unquotedText) {
					return res // documented caller error
				}
				want := unquoteTextTokens(ob)
				if !bytes.Equal(want, nb) {
					return fail("on = %s, want off with TextMarshaler literals unquoted = %s", clipB(nb), clipB(want))
				}
			default:
				if !bytes.Equal(ob, nb) {
					return fail("Marshal outputs differ: %s / %s", clipB(ob), clipB(nb))
				}
				if c.Switch == "NoEncoderNewline" {
					var wa, wb bytes.Buffer
					e1, e2 := off.NewEncoder(&wa).Encode(x), on.NewEncoder(&wb).Encode(x)
					if e1 != nil || e2 != nil || wa.String() != wb.String()+"\n" {
						return fail("stream outputs %q / %q (%v %v): want exactly one newline of difference", clipB(wa.Bytes()), clipB(wb.Bytes()), e1, e2)
					}
					if json.Valid(ob) { // json.Indent inside the stream encoder needs well-formed text (NoValidateJSONMarshaler may be on)
						wa.Reset()
						wb.Reset()
						sa, sb := off.NewEncoder(&wa), on.NewEncoder(&wb)
						sa.SetIndent("", " ")
						sb.SetIndent("", " ")
						e1, e2 = sa.Encode(x), sb.Encode(x)
						if e1 != nil || e2 != nil || wa.String() != wb.String()+"\n" {
							return fail("indenting stream outputs %q / %q (%v %v): want exactly one newline of difference", clipB(wa.Bytes()), clipB(wb.Bytes()), e1, e2)
						}
						res.Classes = append(res.Classes, "stream-indent-newline")
					}
					feature = true
				}
			}
		}
		res.NonTrivial = feature
		if feature {
			res.Classes = append(res.Classes, "feature:"+c.Switch)
		}
		return res
	}

	// ---- decoder switches
	if c.Switch == "entry-dec" {
		return c.runEntryDec(offCfg, res)
	}
	var ty reflect.Type
	if c.Switch == "CaseSensitive" {
		ty = reflect.TypeOf(c18Flat{})
	} else {
		var err error
		ty, err = tv.Build(c.T)
		if err != nil {
			return fail("harness: %v", err)
		}
	}
	res.Programs = firstUse(ty)
	od, nd := reflect.New(ty), reflect.New(ty)
	res.Sub += 2
	oe := unmarshalThenScribble(off, c.Doc, od.Interface())
	ne := unmarshalThenScribble(on, c.Doc, nd.Interface())
	flaws := ref.DocStringFlaws(c.Doc)
	identical := func() stat.Result {
		if (oe == nil) != (ne == nil) {
			return fail("input lacks the feature but error parity differs: off %v, on %v (doc %s into %s)", oe, ne, clipB(c.Doc), ty)
		}
		if oe == nil {
			if d := deepEq(od.Elem(), nd.Elem(), "", 0); d != "" {
				// listed finding: the literal -0 decodes to either sign of zero depending on the byte after the input
				if c18MinusZeroLit.Match(c.Doc) && knownListed("C19-minus-zero-integer-literal") && c19LeafDiffs(od.Elem(), nd.Elem(), func(x, y reflect.Value) bool {
					return isFloatKind(x) && x.Float() == 0 && y.Float() == 0
				}) {
					res.Known = append(res.Known, "C19-minus-zero-integer-literal")
					return res
				}
				return fail("input lacks the feature but values differ at %s (doc %s into %s)", d, clipB(c.Doc), ty)
			}
		}
		return res
	}
	valid := json.Valid(c.Doc)
	switch c.Switch {
	case "CopyString", "NoValidateJSONSkip":
		if !valid || flaws.InvalidUTF8 || flaws.Control {
			return res
		}
		res.NonTrivial = len(c.Doc) > 8
		return identical()
	case "UseNumber", "UseInt64":
		if (oe == nil) != (ne == nil) {
			// with UseNumber an overflowing literal in an interface{} position is no longer converted
			if c.Switch == "UseNumber" && oe != nil && ne == nil {
				return res
			}
			return fail("error parity: off %v, on %v (doc %s into %s)", oe, ne, clipB(c.Doc), ty)
		}
		if oe != nil {
			return res
		}
		res.NonTrivial = typeHasIface(ty, 0) && bytes.ContainsAny(c.Doc, "0123456789")
		if d := deepEqSkippingIfaces(od.Elem(), nd.Elem()); d != "" {
			return fail("a non-interface position changed at %s (doc %s into %s)", d, clipB(c.Doc), ty)
		}
		return res
	case "DisallowUnknownFields":
		sd := reflect.New(ty)
		dec := json.NewDecoder(bytes.NewReader(c.Doc))
		dec.DisallowUnknownFields()
		se := dec.Decode(sd.Interface())
		plain := json.Unmarshal(c.Doc, reflect.New(ty).Interface())
		unknown := se != nil && plain == nil && strings.Contains(se.Error(), "unknown field")
		if unknown {
			res.NonTrivial = true
			res.Classes = append(res.Classes, "feature:DisallowUnknownFields")
			if oe == nil && ne == nil {
				return fail("unknown field accepted with the switch on (doc %s into %s; encoding/json: %v)", clipB(c.Doc), ty, se)
			}
			return res
		}
		if plain == nil && valid {
			return identical()
		}
		return res
	case "CaseSensitive":
		// expected: members whose key matches a field only case-insensitively are ignored
		names := []string{"alpha", "Beta", "Gamma", "deltaX", "ab"}
		root := ref.Parse(c.Doc)
		var drop []ref.DupRef
		for i, k := range root.Keys {
			exact, fold := false, false
			for _, n := range names {
				exact = exact || n == k.Str
				fold = fold || strings.EqualFold(n, k.Str)
			}
			if fold && !exact {
				drop = append(drop, ref.DupRef{Obj: 0, Member: i})
			}
		}
		res.NonTrivial = len(drop) > 0
		if len(drop) > 0 {
			res.Classes = append(res.Classes, "feature:CaseSensitive")
		}
		if offCfg.DisallowUnknownFields && len(drop) > 0 {
			// a key that no longer matches is an unknown field
			if ne == nil {
				return fail("case-mismatching key accepted although unknown fields are disallowed; doc %s", clipB(c.Doc))
			}
			return res
		}
		want := reflect.New(ty)
		we := off.Unmarshal(ref.RemoveMembers(c.Doc, drop), want.Interface())
		if (we == nil) != (ne == nil) {
			return fail("on err %v, expected (off on the document without case-mismatching keys) %v; doc %s", ne, we, clipB(c.Doc))
		}
		if ne == nil {
			if d := deepEq(want.Elem(), nd.Elem(), "", 0); d != "" {
				return fail("values differ at %s; doc %s", d, clipB(c.Doc))
			}
		}
		return res
	case "ValidateStringDec":
		if !ref.Structural(c.Doc) {
			return res
		}
		switch {
		case !flaws.Control && !flaws.InvalidUTF8:
			res.NonTrivial = len(c.Doc) > 8
			return identical()
		case flaws.Control:
			res.NonTrivial = true
			res.Classes = append(res.Classes, "feature:ValidateString-control")
			if typeIsIface(ty) && oe == nil && ne == nil {
				return fail("raw control character in a stored string accepted with ValidateString on: %s", clipB(c.Doc))
			}
		default:
			res.NonTrivial = true
			res.Classes = append(res.Classes, "feature:ValidateString-utf8")
			if typeIsIface(ty) && oe == nil {
				if ne != nil {
					return fail("invalid UTF-8 must be replaced, not rejected: %v (doc %q)", ne, clipB(c.Doc))
				}
				want := reflect.New(ty)
				if we := off.Unmarshal(ref.CorrectUTF8(c.Doc, []byte("�")), want.Interface()); we == nil {
					if d := deepEq(want.Elem(), nd.Elem(), "", 0); d != "" {
						return fail("on differs from off on the corrected document at %s (doc %q)", d, clipB(c.Doc))
					}
				}
			}
		}
		return res
	case "UseUnicodeErrors":
		if !valid {
			return res
		}
		if !flaws.LoneSurr {
			// a string whose content is itself a quoted literal (payload of a ,string field) carries the feature
			// in its inner literal: the outer one only shows an escaped backslash
			if c18InnerSurrogate.Match(c.Doc) {
				res.NonTrivial = true
				res.Classes = append(res.Classes, "feature:UseUnicodeErrors-inner-literal")
				if ty.Kind() == reflect.Struct && ty.NumField() == 1 && ty.Field(0).Type.Kind() == reflect.String &&
					strings.HasSuffix(ty.Field(0).Tag.Get("json"), ",string") && c18LoneInnerDoc.Match(c.Doc) && oe == nil && ne == nil {
					return fail("lone surrogate escape in the payload of a ,string field accepted with UseUnicodeErrors on: %s", clipB(c.Doc))
				}
				return res
			}
			res.NonTrivial = flaws.HasEscape
			return identical()
		}
		res.NonTrivial = true
		res.Classes = append(res.Classes, "feature:UseUnicodeErrors")
		if typeIsIface(ty) && oe == nil && ne == nil {
			return fail("lone surrogate escape in a stored string accepted with UseUnicodeErrors on: %s", clipB(c.Doc))
		}
		return res
	}
	return res
}

func typeIsIface(t reflect.Type) bool { return t.Kind() == reflect.Interface }

func typeHasIface(t reflect.Type, d int) bool {
	if d > 8 {
		return false
	}
	switch t.Kind() {
	case reflect.Interface:
		return true
	case reflect.Ptr, reflect.Slice, reflect.Array, reflect.Map:
		return typeHasIface(t.Elem(), d+1)
	case reflect.Struct:
		for i := 0; i < t.NumField(); i++ {
			if typeHasIface(t.Field(i).Type, d+1) {
				return true
			}
		}
	}
	return false
}

func typeHasMapOrIface(t reflect.Type, d int) bool {
	return typeHasMap(t, d) || typeHasIface(t, d)
}

func typeHasStringOpt(t reflect.Type, d int) bool {
	if d > 8 {
		return false
	}
	switch t.Kind() {
	case reflect.Ptr, reflect.Slice, reflect.Array, reflect.Map:
		return typeHasStringOpt(t.Elem(), d+1)
	case reflect.Struct:
		for i := 0; i < t.NumField(); i++ {
			if containsOpt(string(t.Field(i).Tag), "string") || typeHasStringOpt(t.Field(i).Type, d+1) {
				return true
			}
		}
	}
	return false
}

// denil replaces nil slices and maps by empty ones (what NoNullSliceOrMap documents).
func denil(v reflect.Value) {
	mutateValue(v, reflect.StructField{}, func(x reflect.Value, _ reflect.StructField) {
		if !x.CanSet() || !x.CanInterface() {
			return
		}
		switch x.Kind() {
		case reflect.Slice:
			if x.IsNil() {
				if _, isM := x.Interface().(json.Marshaler); !isM && x.Type() != reflect.TypeOf(json.RawMessage(nil)) {
					x.Set(reflect.MakeSlice(x.Type(), 0, 0))
				}
			}
		case reflect.Map:
			if x.IsNil() {
				x.Set(reflect.MakeMap(x.Type()))
			}
		}
	}, 0)
}

// deepEqSkippingIfaces compares two values of the same type, ignoring everything held in interface positions.
func deepEqSkippingIfaces(a, b reflect.Value) string {
	if a.Kind() == reflect.Interface {
		return ""
	}
	switch a.Kind() {
	case reflect.Ptr:
		if a.IsNil() || b.IsNil() {
			if a.IsNil() != b.IsNil() {
				return "pointer nil-ness"
			}
			return ""
		}
		return deepEqSkippingIfaces(a.Elem(), b.Elem())
	case reflect.Slice, reflect.Array:
		if a.Len() != b.Len() {
			return "length"
		}
		for i := 0; i < a.Len(); i++ {
			if d := deepEqSkippingIfaces(a.Index(i), b.Index(i)); d != "" {
				return fmt.Sprintf("[%d]%s", i, d)
			}
		}
		return ""
	case reflect.Map:
		if a.Len() != b.Len() {
			return "map length"
		}
		for _, k := range a.MapKeys() {
			bv := b.MapIndex(k)
			if !bv.IsValid() {
				return "map key set"
			}
			if d := deepEqSkippingIfaces(a.MapIndex(k), bv); d != "" {
				return fmt.Sprintf("[%v]%s", k, d)
			}
		}
		return ""
	case reflect.Struct:
		for i := 0; i < a.NumField(); i++ {
			if d := deepEqSkippingIfaces(a.Field(i), b.Field(i)); d != "" {
				return "." + a.Type().Field(i).Name + d
			}
		}
		return ""
	default:
		return deepEq(a, b, "", 0)
	}
}

// unquoteTextTokens rewrites every string token whose decoded value is itself the quoted text a
// cat.TQuoted produces ("q:...") into that inner literal.
func unquoteTextTokens(doc []byte) []byte {
	toks, _ := ref.Scan(doc)
	var out []byte
	last := 0
	for _, t := range toks {
		if t.Kind != ref.TString {
			continue
		}
		body, fl := ref.Unquote(doc[t.Beg+1 : t.End-1])
		if fl.BadEscape || len(body) < 4 || !bytes.HasPrefix(body, []byte(`"q:`)) || body[len(body)-1] != '"' {
			continue
		}
		out = append(out, doc[last:t.Beg]...)
		out = append(out, body...)
		last = t.End
	}
	return append(out, doc[last:]...)
}

func (c *C18Case) runEntryEnc(x interface{}, cfg sonic.Config, res stat.Result) stat.Result {
	fail := func(f string, a ...interface{}) stat.Result {
		res.Err = fmt.Errorf("entry points (encode), base %#x: %s", c.Base, fmt.Sprintf(f, a...))
		return res
	}
	ty := reflect.TypeOf(x)
	if ty != nil && typeHasMapOrIface(ty, 0) {
		cfg.SortMapKeys = true
	}
	api := cfg.Froze()
	want, werr := api.Marshal(x)
	res.NonTrivial = werr == nil && len(want) > 4
	var opts encoder.Options
	add := func(b bool, o encoder.Options) {
		if b {
			opts |= o
		}
	}
	add(cfg.EscapeHTML, encoder.EscapeHTML)
	add(cfg.SortMapKeys, encoder.SortMapKeys)
	add(cfg.CompactMarshaler, encoder.CompactMarshaler)
	add(cfg.NoNullSliceOrMap, encoder.NoNullSliceOrMap)
	add(cfg.ValidateString, encoder.ValidateString)
	add(cfg.NoValidateJSONMarshaler, encoder.NoValidateJSONMarshaler)
	add(cfg.NoEncoderNewline, encoder.NoEncoderNewline)
	add(cfg.EncodeNullForInfOrNan, encoder.EncodeNullForInfOrNan)
	check := func(name string, got []byte, err error) bool {
		res.Sub++
		if (err == nil) != (werr == nil) || (err == nil && !bytes.Equal(got, want)) {
			fail("%s = %s, %v; Config.Froze().Marshal = %s, %v", name, clipB(got), err, clipB(want), werr)
			return false
		}
		return true
	}
	b, err := encoder.Encode(x, opts)
	if !check("encoder.Encode(v, opts)", b, err) {
		return res
	}
	e := &encoder.Encoder{}
	if cfg.SortMapKeys {
		e.SortKeys()
	}
	e.SetEscapeHTML(cfg.EscapeHTML)
	e.SetValidateString(cfg.ValidateString)
	e.SetNoValidateJSONMarshaler(cfg.NoValidateJSONMarshaler)
	e.SetNoEncoderNewline(cfg.NoEncoderNewline)
	e.SetCompactMarshaler(cfg.CompactMarshaler)
	if cfg.NoNullSliceOrMap {
		e.Opts |= encoder.NoNullSliceOrMap
	}
	if cfg.EncodeNullForInfOrNan {
		e.Opts |= encoder.EncodeNullForInfOrNan
	}
	b, err = e.Encode(x)
	if !check("Encoder setters .Encode", b, err) {
		return res
	}
	s, err := api.MarshalToString(x)
	if !check("MarshalToString", []byte(s), err) {
		return res
	}
	var buf []byte = make([]byte, 3, 64)
	copy(buf, "abc")
	err = encoder.EncodeInto(&buf, x, opts)
	if err == nil && string(buf[:3]) != "abc" {
		return fail("EncodeInto overwrote the existing prefix")
	}
	if err == nil {
		buf = buf[3:]
	}
	if !check("EncodeInto", buf, err) {
		return res
	}
	ind, ierr := api.MarshalIndent(x, "p", "  ")
	if werr == nil {
		var ib bytes.Buffer
		if json.Indent(&ib, want, "p", "  ") == nil {
			res.Sub++
			if ierr != nil || !bytes.Equal(ind, ib.Bytes()) {
				return fail("MarshalIndent = %q, %v; want json.Indent(Marshal) = %q", clipB(ind), ierr, clipB(ib.Bytes()))
			}
		}
	}
	var sb bytes.Buffer
	serr := api.NewEncoder(&sb).Encode(x)
	if werr == nil {
		res.Sub++
		w := string(want)
		if !cfg.NoEncoderNewline {
			w += "\n"
		}
		if serr != nil || sb.String() != w {
			return fail("NewEncoder.Encode wrote %q, %v; want %q", clipB(sb.Bytes()), serr, clipS(w))
		}
	}
	// the same stream encoder with indentation: MarshalIndent plus the newline that NoEncoderNewline removes
	if werr == nil {
		var ib, sb2 bytes.Buffer
		if json.Indent(&ib, want, "p", "  ") == nil {
			se := api.NewEncoder(&sb2)
			se.SetIndent("p", "  ")
			serr2 := se.Encode(x)
			res.Sub++
			w := ib.String()
			if !cfg.NoEncoderNewline {
				w += "\n"
			}
			if serr2 != nil || sb2.String() != w {
				return fail("NewEncoder.SetIndent.Encode wrote %q, %v; want %q", clipB(sb2.Bytes()), serr2, clipS(w))
			}
			res.Classes = append(res.Classes, "entry:stream-indent")
		}
	}
	// the package-level functions are ConfigDefault
	if c.Base == 0 || cfg == (sonic.Config{SortMapKeys: cfg.SortMapKeys}) {
		d1, e1 := sonic.ConfigDefault.Marshal(x)
		d2, e2 := sonic.Marshal(x)
		d3, e3 := sonic.MarshalString(x)
		if !cfg.SortMapKeys {
			res.Sub++
			if (e1 == nil) != (e2 == nil) || (e1 == nil) != (e3 == nil) || (e1 == nil && (!bytes.Equal(d1, d2) || string(d1) != d3)) {
				return fail("sonic.Marshal/MarshalString/ConfigDefault.Marshal disagree: %s / %s / %s", clipB(d1), clipB(d2), clipS(d3))
			}
		}
	}
	return res
}

func (c *C18Case) runEntryDec(cfg sonic.Config, res stat.Result) stat.Result {
	fail := func(f string, a ...interface{}) stat.Result {
		res.Err = fmt.Errorf("entry points (decode), base %#x doc %s: %s", c.Base, clipB(c.Doc), fmt.Sprintf(f, a...))
		return res
	}
	ty, err := tv.Build(c.T)
	if err != nil {
		return fail("harness: %v", err)
	}
	api := cfg.Froze()
	want := reflect.New(ty)
	werr := unmarshalThenScribble(api, c.Doc, want.Interface())
	res.NonTrivial = werr == nil && len(c.Doc) > 4
	cmp := func(name string, got reflect.Value, err error) bool {
		res.Sub++
		if (err == nil) != (werr == nil) {
			fail("%s err %v; Config.Froze().Unmarshal err %v", name, err, werr)
			return false
		}
		if err == nil {
			if d := deepEq(want.Elem(), got.Elem(), "", 0); d != "" {
				if c18MinusZeroLit.Match(c.Doc) && knownListed("C19-minus-zero-integer-literal") && c19LeafDiffs(want.Elem(), got.Elem(), func(x, y reflect.Value) bool {
					return isFloatKind(x) && x.Float() == 0 && y.Float() == 0
				}) {
					res.Known = append(res.Known, "C19-minus-zero-integer-literal")
					return true
				}
				fail("%s differs from Config.Froze().Unmarshal at %s", name, d)
				return false
			}
		}
		return true
	}
	g := reflect.New(ty)
	if !cmp("UnmarshalFromString", g, api.UnmarshalFromString(string(c.Doc), g.Interface())) {
		return res
	}
	// Decoder with setters
	d := decoder.NewDecoder(string(c.Doc))
	if cfg.UseNumber {
		d.UseNumber()
	}
	if cfg.UseInt64 {
		d.UseInt64()
	}
	if cfg.UseUnicodeErrors {
		d.UseUnicodeErrors()
	}
	if cfg.DisallowUnknownFields {
		d.DisallowUnknownFields()
	}
	if cfg.CopyString {
		d.CopyString()
	}
	if cfg.ValidateString {
		d.ValidateString()
	}
	if cfg.CaseSensitive {
		var o decoder.Options
		// no setter for CaseSensitive: rebuild the option set
		if cfg.UseNumber {
			o |= decoder.OptionUseNumber
		}
		if cfg.UseInt64 {
			o |= decoder.OptionUseInt64
		}
		if cfg.UseUnicodeErrors {
			o |= decoder.OptionUseUnicodeErrors
		}
		if cfg.DisallowUnknownFields {
			o |= decoder.OptionDisableUnknown
		}
		if cfg.CopyString {
			o |= decoder.OptionCopyString
		}
		if cfg.ValidateString {
			o |= decoder.OptionValidateString
		}
		o |= decoder.OptionCaseSensitive
		d.SetOptions(o)
	}
	g = reflect.New(ty)
	derr := d.Decode(g.Interface())
	if derr == nil {
		derr = d.CheckTrailings()
	}
	if !cmp("decoder.NewDecoder + setters + CheckTrailings", g, derr) {
		return res
	}
	// stream decoder of the frozen config on a single document
	g = reflect.New(ty)
	serr := api.NewDecoder(bytes.NewReader(c.Doc)).Decode(g.Interface())
	if ref.Structural(c.Doc) || werr == nil {
		if !cmp("NewDecoder(reader).Decode", g, serr) {
			return res
		}
	}
	if c.Base == 0 {
		g = reflect.New(ty)
		if !cmp("sonic.Unmarshal", g, sonic.Unmarshal(c.Doc, g.Interface())) {
			return res
		}
		g = reflect.New(ty)
		if !cmp("sonic.UnmarshalString", g, sonic.UnmarshalString(string(c.Doc), g.Interface())) {
			return res
		}
	}
	res.Sub++
	v1, v2 := api.Valid(c.Doc), sonic.Valid(c.Doc)
	v3 := sonic.ValidString(string(c.Doc))
	v4, _ := encoder.Valid(c.Doc)
	if v1 != v2 || v1 != v3 || v1 != v4 {
		return fail("Valid entry points disagree: Config.Valid %v sonic.Valid %v ValidString %v encoder.Valid %v", v1, v2, v3, v4)
	}
	return res
}

func hasNilByteSlice(v reflect.Value) bool {
	found := false
	mutateValue(copyValue(v), reflect.StructField{}, func(x reflect.Value, _ reflect.StructField) {
		if x.Kind() == reflect.Slice && x.IsNil() && x.Type().Elem().Kind() == reflect.Uint8 {
			found = true
		}
	}, 0)
	return found
}

// unmarshalThenScribble decodes from a private copy of doc and then overwrites that copy: Unmarshal([]byte)
// returns data the caller owns, so nothing decoded may change when the caller reuses its buffer.
func unmarshalThenScribble(api sonic.API, doc []byte, dst interface{}) error {
	buf := append(make([]byte, 0, len(doc)+8), doc...)
	err := api.Unmarshal(buf, dst)
	for i := range buf {
		buf[i] = '#'
	}
	return err
}

// c18InnerSurrogate: an escaped backslash followed by a surrogate escape (\\uD8xx..\\uDFxx inside a string literal).
var c18InnerSurrogate = regexp.MustCompile(`\\\\u[dD][89a-fA-F][0-9a-fA-F]{2}`)

// c18LoneInnerDoc: exactly {"<key>":"\"<text without backslashes> \\uDxxx <text without backslashes>\""}: one inner surrogate escape, hence a lone one.
var c18LoneInnerDoc = regexp.MustCompile(`^\s*\{\s*"[a-zA-Z]*"\s*:\s*"\\"[^\\"]*\\\\u[dD][89a-fA-F][0-9a-fA-F]{2}[^\\"]*\\""\s*\}\s*$`)
