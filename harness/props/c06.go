package props

import (
	"bytes"
	"encoding/json"
	"fmt"
	"reflect"
	"runtime"
	"runtime/debug"
	"strconv"
	"strings"

	"github.com/bytedance/sonic"
	"github.com/bytedance/sonic/ast"
	"github.com/bytedance/sonic/decoder"
	"github.com/bytedance/sonic/encoder"
	"pgregory.net/rapid"
	"verif/harness/gen"
	"verif/harness/stat"
)

// C06Case: (kind "history") a list of encode/decode calls whose results must stay intact while the
// harness scribbles over older results; (kind "into") EncodeInto into a caller buffer that ends at a
// guard page; (kind "alias") decode, overwrite the caller's input, compare.
type C06Case struct {
	Kind  string  `json:"kind"`
	Steps []C06Op `json:"steps,omitempty"`

	// into
	Value   string `json:"value,omitempty"` // JSON text of the value (decoded into interface{})
	Mask    uint64 `json:"mask,omitempty"`
	Prefix  string `json:"prefix,omitempty"`
	Spare   int    `json:"spare,omitempty"` // capacity beyond the prefix
	Junk    byte   `json:"junk,omitempty"`  // initial content of the spare capacity
	AtGuard bool   `json:"at_guard,omitempty"`
	// into, typed variant: numbers of one Go kind (the JIT emits digits straight into the spare capacity
	// after a per-kind space check), as a scalar, slice, struct, pointer or map value
	NumKind  string   `json:"num_kind,omitempty"`
	NumShape int      `json:"num_shape,omitempty"`
	Nums     []string `json:"nums,omitempty"`

	// alias
	Doc   []byte `json:"doc,omitempty"`
	Entry int    `json:"entry,omitempty"`
	Cfg   int    `json:"cfg,omitempty"` // alias mode: which frozen configuration decodes (see c06Cfgs)
}

type C06Op struct {
	Op   string `json:"op"`   // marshal | marshalstring | indent | encode | encodeinto | node | raw | stream | decode | gc
	Size int    `json:"size"` // length of the string payload
	Mask uint64 `json:"mask"`
	Fill byte   `json:"fill"`
}

func init() { register("C06", func() Case { return &C06Case{} }) }

var c06Ops = []string{"marshal", "marshalstring", "indent", "encode", "encodeinto", "node", "raw", "stream", "decode", "gc"}

// c06Cfgs: configurations under which Unmarshal([]byte) must hand out caller-owned data.
var c06Cfgs = []sonic.API{
	sonic.ConfigDefault, sonic.ConfigStd, sonic.ConfigFastest,
	sonic.Config{CopyString: true}.Froze(), sonic.Config{CopyString: true, UseNumber: true}.Froze(), sonic.Config{UseNumber: true}.Froze(),
	sonic.Config{UseInt64: true, CopyString: true, ValidateString: true}.Froze(), sonic.Config{NoValidateJSONSkip: true, UseNumber: true}.Froze(),
}

var c06AliasEntries = []string{"Unmarshal([]byte)->interface{}", "Unmarshal([]byte)->struct", "Unmarshal([]byte)->RawMessage", "Get([]byte)", "GetWithOptions(CopyReturn)", "UnmarshalString+CopyString", "StreamDecoder", "Unmarshal([]byte)->map[string]string", "Unmarshal([]byte)->ast.Node"}

func drawC06(t *rapid.T) Case {
	c := &C06Case{}
	switch rapid.IntRange(0, 2).Draw(t, "kind") {
	case 0:
		c.Kind = "history"
		n := rapid.IntRange(2, 12).Draw(t, "nsteps")
		sizes := []int{0, 1, 10, 100, 1000, 4000, 4090, 4096, 4100, 5000, 8192, 65530, 65536, 70000}
		if thorough() {
			sizes = append(sizes, 1<<20-100, 1<<20, 1<<20+100, 1500000)
		}
		for i := 0; i < n; i++ {
			c.Steps = append(c.Steps, C06Op{
				Op:   c06Ops[rapid.IntRange(0, len(c06Ops)-1).Draw(t, "op")],
				Size: sizes[rapid.IntRange(0, len(sizes)-1).Draw(t, "size")],
				Mask: uint64(rapid.IntRange(0, 511).Draw(t, "mask")) | optSortMapKeys,
				Fill: "a<\xffz"[rapid.IntRange(0, 3).Draw(t, "fill")],
			})
		}
	case 1:
		c.Kind = "into"
		c.Value = string(bytes.TrimSpace(gen.ValidDoc(t, gen.DocOpt{Str: gen.StrOpt{MaxPieces: 3}, MaxDepth: 2, NoSpace: true})))
		var probe interface{}
		if json.Unmarshal([]byte(c.Value), &probe) != nil {
			c.Value = `{"a":["<x>",1.5]}`
		}
		c.Mask = uint64(rapid.IntRange(0, 511).Draw(t, "mask")) | optSortMapKeys
		c.Prefix = []string{"", "P", "prefix<&>", strings.Repeat("p", 33), "\xff\xfe"}[rapid.IntRange(0, 4).Draw(t, "prefix")]
		c.Spare = rapid.IntRange(0, len(c.Value)*2+70).Draw(t, "spare")
		c.Junk = byte(rapid.IntRange(0, 255).Draw(t, "junk"))
		c.AtGuard = rapid.Bool().Draw(t, "atguard")
		if rapid.Bool().Draw(t, "typednums") {
			c.Value = ""
			c.NumKind = c06NumKindNames[rapid.IntRange(0, len(c06NumKindNames)-1).Draw(t, "numkind")]
			c.NumShape = rapid.IntRange(0, 4).Draw(t, "numshape")
			for i, n := 0, rapid.IntRange(1, 4).Draw(t, "nnums"); i < n; i++ {
				c.Nums = append(c.Nums, c06DrawNum(t, c.NumKind))
			}
			c.Prefix = []string{"", "P", "pre"}[rapid.IntRange(0, 2).Draw(t, "nprefix")]
			c.Spare = rapid.IntRange(0, 40).Draw(t, "nspare")
		}
	default:
		c.Kind = "alias"
		c.Doc = gen.ValidDoc(t, gen.DocOpt{Str: gen.StrOpt{MaxPieces: 3}, MaxDepth: 3, KeyPool: []string{"a", "b", "A", "s"}, Nested: true})
		if !json.Valid(c.Doc) {
			c.Doc = []byte(`{"a":"xyz","b":["s",1]}`)
		}
		c.Entry = rapid.IntRange(0, len(c06AliasEntries)-1).Draw(t, "entry")
		c.Cfg = rapid.IntRange(0, len(c06Cfgs)-1).Draw(t, "cfg")
	}
	return c
}

type c06Payload struct {
	S string            `json:"s"`
	M map[string]string `json:"m"`
	N int               `json:"n"`
}

func c06Value(op C06Op) c06Payload {
	return c06Payload{S: strings.Repeat(string([]byte{op.Fill}), op.Size), M: map[string]string{"k": "v<>", "size": fmt.Sprint(op.Size)}, N: op.Size}
}

func (c *C06Case) Run() (res stat.Result) {
	switch c.Kind {
	case "history":
		return c.runHistory()
	case "into":
		return c.runInto()
	default:
		return c.runAlias()
	}
}

type c06Held struct {
	what string
	b    []byte // the slice as returned (full capacity reachable)
	snap []byte // private copy taken when it was returned
	dead bool   // scribbled by the harness
}

func (c *C06Case) runHistory() (res stat.Result) {
	res.Classes = append(res.Classes, "kind:history")
	var held []*c06Held
	expected := map[string][]byte{}
	reuse := false
	fail := func(f string, a ...interface{}) stat.Result {
		res.Err = fmt.Errorf("history %s", fmt.Sprintf(f, a...))
		return res
	}
	check := func(step int) bool {
		for _, h := range held {
			if !h.dead && !bytes.Equal(h.b, h.snap) {
				fail("step %d: bytes returned earlier by %s were changed by a later call: now %s, were %s", step, h.what, clipB(h.b), clipB(h.snap))
				return false
			}
		}
		return true
	}
	for i, op := range c.Steps {
		res.Sub++
		v := c06Value(op)
		opts := encoder.Options(op.Mask)
		var out []byte
		var err error
		key := fmt.Sprintf("%s/%d/%d/%d", op.Op, op.Size, op.Mask, op.Fill)
		switch op.Op {
		case "marshal":
			out, err = sonic.ConfigStd.Marshal(v)
		case "marshalstring":
			var s string
			s, err = sonic.ConfigStd.MarshalToString(v)
			out = []byte(s)
			// the string itself must stay intact too: keep it through an unsafe-free copy check below
			held = append(held, &c06Held{what: "MarshalToString", b: stringBytesView(s), snap: []byte(s)})
		case "indent":
			out, err = sonic.ConfigStd.MarshalIndent(v, "", " ")
		case "encode":
			out, err = encoder.Encode(v, opts)
		case "encodeinto":
			buf := make([]byte, 3, 16)
			copy(buf, "pre")
			err = encoder.EncodeInto(&buf, v, opts&^encoder.EscapeHTML)
			out = buf
		case "node", "raw":
			doc, _ := json.Marshal(v)
			n := ast.NewRaw(string(doc))
			if op.Op == "node" {
				n.Get("m")
				out, err = n.MarshalJSON()
			} else {
				n.Get("s")
				var s string
				s, err = n.Raw()
				out = []byte(s)
			}
		case "stream":
			var w bytes.Buffer
			e := encoder.NewStreamEncoder(&w)
			e.Opts = opts
			err = e.Encode(v)
			out = w.Bytes()
		case "decode":
			doc, _ := json.Marshal(v)
			var back c06Payload
			if e := sonic.Unmarshal(doc, &back); e != nil || back.N != v.N {
				return fail("step %d: decode churn failed: %v", i, e)
			}
			if !check(i) {
				return res
			}
			continue
		case "gc":
			runtime.GC()
			if !check(i) {
				return res
			}
			continue
		}
		if err != nil {
			return fail("step %d %s failed: %v", i, op.Op, err)
		}
		if !json.Valid(bytes.TrimPrefix(out, []byte("pre"))) {
			return fail("step %d %s produced malformed output %s", i, op.Op, clipB(out))
		}
		// the same call always gives the same bytes, whatever happened to pools in between
		if prev, ok := expected[key]; ok {
			reuse = true
			if !bytes.Equal(prev, out) {
				return fail("step %d %s: output differs from the same call made earlier in this history: %s vs %s", i, op.Op, clipB(out), clipB(prev))
			}
		} else {
			expected[key] = append([]byte(nil), out...)
		}
		held = append(held, &c06Held{what: fmt.Sprintf("step %d %s(size %d)", i, op.Op, op.Size), b: out[:len(out):cap(out)], snap: append([]byte(nil), out...)})
		if !check(i) {
			return res
		}
		// the caller owns what it got: scribble over the full capacity of an older result
		if len(held) >= 2 && i%2 == 1 {
			h := held[len(held)-2]
			if !h.dead && !strings.HasPrefix(h.what, "MarshalToString") {
				full := h.b[:cap(h.b)]
				for k := range full {
					full[k] = 0xA5
				}
				h.dead = true
			}
		}
		res.Classes = append(res.Classes, "op:"+op.Op)
		if op.Size >= 4096 {
			res.Classes = append(res.Classes, "size>=4096")
		}
		if op.Size >= 1<<20 {
			res.Classes = append(res.Classes, "size>=1MiB")
		}
	}
	if !check(len(c.Steps)) {
		return res
	}
	res.NonTrivial = reuse || len(held) >= 3
	return res
}

func stringBytesView(s string) []byte {
	if len(s) == 0 {
		return nil
	}
	return unsafeBytes(s)
}

func (c *C06Case) runInto() (res stat.Result) {
	res.Classes = append(res.Classes, "kind:into")
	debug.SetPanicOnFault(true)
	var v interface{}
	if c.NumKind != "" {
		v = c06TypedNums(c.NumKind, c.NumShape, c.Nums)
		res.Classes = append(res.Classes, "into-typed:"+c.NumKind, fmt.Sprintf("into-typed-shape:%d", c.NumShape))
	} else if err := json.Unmarshal([]byte(c.Value), &v); err != nil {
		res.Err = fmt.Errorf("harness: %v", err)
		return
	}
	opts := encoder.Options(c.Mask)
	want, werr := encoder.Encode(v, opts)
	if werr != nil {
		res.Err = fmt.Errorf("Encode failed: %v", werr)
		return
	}
	total := len(c.Prefix) + c.Spare
	var region []byte
	canary := 64
	if c.AtGuard && canary+total <= c05GuardSize {
		c05GuardMu.Lock()
		defer c05GuardMu.Unlock()
		if c05Guard == nil {
			g, err := newGuarded(c05GuardSize)
			if err != nil {
				panic("harness: mmap failed: " + err.Error())
			}
			c05Guard = g
		}
		region = c05Guard.tail(canary + total)
		res.Classes = append(res.Classes, "into-at-guard")
	} else {
		region = make([]byte, canary+total+canary)
	}
	for i := range region {
		region[i] = 0xC3
	}
	buf := region[canary : canary+len(c.Prefix) : canary+total]
	copy(buf, c.Prefix)
	for i := len(c.Prefix); i < total; i++ {
		region[canary+i] = c.Junk
	}
	res.Sub++
	var perr interface{}
	var err error
	func() {
		defer func() { perr = recover() }()
		err = encoder.EncodeInto(&buf, v, opts)
	}()
	if perr != nil {
		res.Err = fmt.Errorf("EncodeInto(prefix %q, spare %d, mask %#x) faulted: %v", c.Prefix, c.Spare, c.Mask, perr)
		return
	}
	if err != nil {
		res.Err = fmt.Errorf("EncodeInto failed: %v", err)
		return
	}
	for i := 0; i < canary; i++ {
		if region[i] != 0xC3 || (!c.AtGuard && region[canary+total+i] != 0xC3) {
			res.Err = fmt.Errorf("EncodeInto wrote outside the caller's buffer (canary %d)", i)
			return
		}
	}
	// the prefix is the caller's data: it must still be there, followed by exactly Encode(v)
	wantAll := append([]byte(c.Prefix), want...)
	if !bytes.Equal(buf, wantAll) {
		if id := c06Classify(c, buf, wantAll); id != "" {
			res.Known = append(res.Known, id)
			return
		}
		res.Err = fmt.Errorf("EncodeInto(prefix %q, spare %d, junk %#x, mask %#x) = %q, want prefix + Encode = %q", c.Prefix, c.Spare, c.Junk, c.Mask, clipB(buf), clipB(wantAll))
		return
	}
	res.NonTrivial = c.Spare < len(want) || c.AtGuard
	if c.Spare < len(want) {
		res.Classes = append(res.Classes, "into-must-grow")
	}
	if d := c.Spare - len(want); c.NumKind != "" && d >= -8 && d <= 2 {
		res.Classes = append(res.Classes, "into-typed-spare-near-output-length")
	}
	return
}

func (c *C06Case) runAlias() (res stat.Result) {
	res.Classes = append(res.Classes, "kind:alias", "alias:"+c06AliasEntries[c.Entry])
	in := append([]byte(nil), c.Doc...)
	var got, copyOf string
	dump := func(v interface{}) string {
		b, _ := json.Marshal(v)
		return string(b)
	}
	res.Sub++
	clobber := func() {
		for i := range in {
			in[i] = 0xFF
		}
	}
	var v interface{}
	switch c.Entry {
	case 0:
		var x interface{}
		if err := c06Cfgs[c.Cfg].Unmarshal(in, &x); err != nil {
			return
		}
		copyOf = dump(x)
		clobber()
		got = dump(x)
	case 1:
		var x struct {
			A interface{}
			B interface{}
			S string
		}
		if err := c06Cfgs[c.Cfg].Unmarshal(in, &x); err != nil {
			return
		}
		copyOf = dump(x)
		clobber()
		got = dump(x)
	case 2:
		var x json.RawMessage
		if err := c06Cfgs[c.Cfg].Unmarshal(in, &x); err != nil {
			return
		}
		copyOf = string(append([]byte(nil), x...))
		clobber()
		got = string(x)
	case 3, 4:
		var n ast.Node
		var err error
		if c.Entry == 3 {
			n, err = sonic.Get(in)
		} else {
			n, err = sonic.GetWithOptions(in, ast.SearchOptions{ValidateJSON: true, CopyReturn: true})
		}
		if err != nil {
			return
		}
		r1, _ := n.Raw()
		copyOf = strings.Clone(r1)
		clobber()
		r2, _ := n.Raw()
		iv, _ := n.Interface()
		got = r2
		var want interface{}
		if json.Unmarshal(c.Doc, &want) == nil && dump(want) != dump(iv) {
			res.Err = fmt.Errorf("%s: node contents changed after the caller overwrote its input: %s vs %s", c06AliasEntries[c.Entry], clipS(dump(iv)), clipS(dump(want)))
			return
		}
	case 5:
		d := decoder.NewDecoder(string(in))
		d.CopyString()
		var x interface{}
		if err := d.Decode(&x); err != nil {
			return
		}
		copyOf = dump(x)
		got = dump(x)
	case 6:
		// the same document twice in one stream: the first value must survive the decoding of the second
		// (the decoder reuses its read buffer) as well as the caller overwriting what it handed in
		two := append(append(append([]byte{}, in...), ' ', '\n'), in...)
		r := bytes.NewReader(two)
		dec := c06Cfgs[c.Cfg].NewDecoder(r)
		if err := dec.Decode(&v); err != nil {
			return
		}
		copyOf = dump(v)
		var second interface{}
		dec.Decode(&second)
		for i := range two {
			two[i] = 0xFF
		}
		clobber()
		// churn the decoder's pooled buffer with another stream
		var w interface{}
		sonic.ConfigStd.NewDecoder(strings.NewReader(strings.Repeat(`"zzzzzzzzzzzzzzzz" `, 50))).Decode(&w)
		got = dump(v)
	case 7:
		var x map[string]string
		if err := c06Cfgs[c.Cfg].Unmarshal(in, &x); err != nil {
			return
		}
		copyOf = dump(x)
		clobber()
		got = dump(x)
	default:
		var n ast.Node
		if err := c06Cfgs[c.Cfg].Unmarshal(in, &n); err != nil {
			return
		}
		r1, _ := n.Raw()
		copyOf = strings.Clone(r1)
		clobber()
		r2, _ := n.Raw()
		got = r2
	}
	res.NonTrivial = len(c.Doc) > 8 && bytes.IndexByte(c.Doc, '"') >= 0
	res.Classes = append(res.Classes, fmt.Sprintf("alias-cfg:%d", c.Cfg))
	if got != copyOf {
		res.Err = fmt.Errorf("%s: decoded data changed when the caller overwrote its input buffer: %s vs %s (doc %s)", c06AliasEntries[c.Entry], clipS(got), clipS(copyOf), clipB(c.Doc))
	}
	_ = reflect.TypeOf
	return
}

// c06Classify maps an EncodeInto mismatch to a listed known finding.
func c06Classify(c *C06Case, got, want []byte) string {
	return ""
}

var c06NumKinds = map[string]reflect.Type{
	"int8": reflect.TypeOf(int8(0)), "int16": reflect.TypeOf(int16(0)), "int32": reflect.TypeOf(int32(0)), "int64": reflect.TypeOf(int64(0)), "int": reflect.TypeOf(int(0)),
	"uint8": reflect.TypeOf(uint8(0)), "uint16": reflect.TypeOf(uint16(0)), "uint32": reflect.TypeOf(uint32(0)), "uint64": reflect.TypeOf(uint64(0)), "uint": reflect.TypeOf(uint(0)), "uintptr": reflect.TypeOf(uintptr(0)),
	"float32": reflect.TypeOf(float32(0)), "float64": reflect.TypeOf(float64(0)), "bool": reflect.TypeOf(false),
}

var c06NumKindNames = []string{"int8", "int16", "int32", "int64", "int", "uint8", "uint16", "uint32", "uint64", "uint", "uintptr", "float32", "float64", "bool"}

// c06DrawNum draws the decimal text of a value of the kind: extremes, powers of ten and their neighbours
// (every output length occurs), small values.
func c06DrawNum(t *rapid.T, kind string) string {
	rt := c06NumKinds[kind]
	switch rt.Kind() {
	case reflect.Bool:
		return []string{"0", "1"}[rapid.IntRange(0, 1).Draw(t, "b")]
	case reflect.Float32, reflect.Float64:
		return []string{"0", "-1.5", "1e20", "-1e-7", "3.4028234663852886e38", "-3.4028234663852886e38", "1.401298464324817e-45", "-123456.78", "1e21", "-2.5e-10", "16777216", "-0.1"}[rapid.IntRange(0, 11).Draw(t, "f")]
	}
	bits := rt.Bits()
	signed := rt.Kind() >= reflect.Int && rt.Kind() <= reflect.Int64
	var cands []string
	if signed {
		mx := int64(1)<<(bits-1) - 1
		cands = append(cands, strconv.FormatInt(mx, 10), strconv.FormatInt(-mx-1, 10), strconv.FormatInt(-mx, 10), "0", "-1", "7")
		for p := int64(10); p > 0 && p <= mx; p *= 10 {
			cands = append(cands, strconv.FormatInt(p, 10), strconv.FormatInt(p-1, 10), strconv.FormatInt(-p, 10), strconv.FormatInt(-p+1, 10))
			if p > mx/10 {
				break
			}
		}
	} else {
		mx := ^uint64(0) >> (64 - uint(bits))
		cands = append(cands, strconv.FormatUint(mx, 10), "0", "1", "9")
		for p := uint64(10); p <= mx; p *= 10 {
			cands = append(cands, strconv.FormatUint(p, 10), strconv.FormatUint(p-1, 10))
			if p > mx/10 {
				break
			}
		}
	}
	return cands[rapid.IntRange(0, len(cands)-1).Draw(t, "num")]
}

// c06TypedNums builds the Go value: shape 0 scalar, 1 slice, 2 struct of fields, 3 pointer to scalar, 4 map value.
func c06TypedNums(kind string, shape int, nums []string) interface{} {
	rt := c06NumKinds[kind]
	mk := func(s string) reflect.Value {
		v := reflect.New(rt).Elem()
		switch rt.Kind() {
		case reflect.Bool:
			v.SetBool(s == "1")
		case reflect.Float32, reflect.Float64:
			f, _ := strconv.ParseFloat(s, rt.Bits())
			v.SetFloat(f)
		case reflect.Int, reflect.Int8, reflect.Int16, reflect.Int32, reflect.Int64:
			i, _ := strconv.ParseInt(s, 10, 64)
			v.SetInt(i)
		default:
			u, _ := strconv.ParseUint(s, 10, 64)
			v.SetUint(u)
		}
		return v
	}
	if len(nums) == 0 {
		nums = []string{"0"}
	}
	switch shape {
	case 1:
		sl := reflect.MakeSlice(reflect.SliceOf(rt), 0, len(nums))
		for _, n := range nums {
			sl = reflect.Append(sl, mk(n))
		}
		return sl.Interface()
	case 2:
		var fs []reflect.StructField
		for i := range nums {
			fs = append(fs, reflect.StructField{Name: fmt.Sprintf("F%d", i), Type: rt, Tag: reflect.StructTag(fmt.Sprintf(`json:"f%d"`, i))})
		}
		st := reflect.New(reflect.StructOf(fs)).Elem()
		for i, n := range nums {
			st.Field(i).Set(mk(n))
		}
		return st.Interface()
	case 3:
		p := reflect.New(rt)
		p.Elem().Set(mk(nums[0]))
		return p.Interface()
	case 4:
		m := reflect.MakeMap(reflect.MapOf(reflect.TypeOf(""), rt))
		m.SetMapIndex(reflect.ValueOf("k"), mk(nums[0]))
		return m.Interface()
	}
	return mk(nums[0]).Interface()
}
