package props

import (
	"encoding/json"
	"fmt"
	"math"
	"reflect"
	"strconv"
	"strings"

	"github.com/bytedance/sonic/ast"
	"verif/harness/ref"
)

// Cross-kind views of a located node (C14): every typed accessor is called on every kind of value, and the
// answer is compared with what the doc comments of ast/node.go promise for that kind ("casts the node to ...,
// including V_NUMBER|V_TRUE|V_FALSE|V_STRING|V_NULL"): numbers and strings convert through strconv
// (ParseInt, then ParseFloat), true/false/null convert to 1/0/0, "true"/"false"/"", the Strict accessors
// accept their own kind only, containers have no scalar reading. The container views that number nodes
// (MapUseNumber, ArrayUseNumber) are compared with encoding/json under UseNumber, the node views
// (MapUseNode, ArrayUseNode, InterfaceUseNode, IndexPair, IndexOrGet, Index on an object) with the
// reference tree.

type c14Cast struct {
	b      bool
	bOK    bool
	i      int64
	iOK    bool
	iExact bool // i is defined by Go (not an out-of-range float conversion)
	f      float64
	fOK    bool
	num    string
	numOK  bool
	s      string
	sOK    bool
}

// castOfText is the conversion strconv gives for the text of a number literal or the content of a string.
func castOfText(s string, isString bool) (c c14Cast) {
	i, ie := strconv.ParseInt(s, 10, 64)
	f, fe := strconv.ParseFloat(s, 64)
	switch {
	case ie == nil:
		c.i, c.iOK, c.iExact = i, true, true
	case fe == nil:
		c.iOK = true
		if f > -9.2e18 && f < 9.2e18 {
			c.i, c.iExact = int64(f), true
		}
	}
	if fe == nil {
		c.f, c.fOK = f, true
	}
	if ie == nil || fe == nil {
		c.num, c.numOK = s, true
	}
	c.s, c.sOK = s, true
	if isString {
		b, be := strconv.ParseBool(s)
		c.b, c.bOK = b, be == nil
	} else {
		switch {
		case ie == nil:
			c.b, c.bOK = i != 0, true
		case fe == nil:
			c.b, c.bOK = f != 0, true
		}
	}
	return
}

// copiesFirst selects the order in which the secondary views of a container are taken: reading by-value copies
// of its children (iterators, ArrayUseNode, MapUseNode, InterfaceUseNode) before or after the conversions that
// load the container in place. The first order reaches the listed finding C15-lazy-node-copy-shares-parser.
func c14CrossViews(doc []byte, n *ast.Node, want *ref.Node, copiesFirst bool) string {
	span := doc[want.Beg:want.End]
	var c c14Cast
	strictB, strictN, strictS := false, false, false
	switch want.Kind {
	case ref.TString:
		s, _ := ref.Unquote(span[1 : len(span)-1])
		c = castOfText(string(s), true)
		strictS = true
	case ref.TNumber:
		c = castOfText(string(span), false)
		c.num, c.numOK = string(span), true // a number node is its own literal, whatever its magnitude
		strictN = true
	case ref.TTrue:
		c = c14Cast{b: true, bOK: true, i: 1, iOK: true, iExact: true, f: 1, fOK: true, num: "1", numOK: true, s: "true", sOK: true}
		strictB = true
	case ref.TFalse:
		c = c14Cast{bOK: true, iOK: true, iExact: true, fOK: true, num: "0", numOK: true, s: "false", sOK: true}
		strictB = true
	case ref.TNull:
		c = c14Cast{bOK: true, iOK: true, iExact: true, fOK: true, num: "0", numOK: true, s: "", sOK: true}
	}
	kindName := []string{ref.TObjOpen: "object", ref.TArrOpen: "array", ref.TString: "string", ref.TNumber: "number", ref.TTrue: "true", ref.TFalse: "false", ref.TNull: "null"}[want.Kind]
	bad := func(name string, got interface{}, err error, wantOK bool, wantV interface{}) string {
		return fmt.Sprintf("%s() on a %s %s = %v, %v; want ok=%v value %v", name, kindName, clipB(span), got, err, wantOK, wantV)
	}
	// the casting accessors
	if g, err := n.Bool(); (err == nil) != c.bOK || (c.bOK && g != c.b) {
		return bad("Bool", g, err, c.bOK, c.b)
	}
	if g, err := n.Int64(); (err == nil) != c.iOK || (c.iOK && c.iExact && g != c.i) {
		return bad("Int64", g, err, c.iOK, c.i)
	}
	if g, err := n.Float64(); (err == nil) != c.fOK || (c.fOK && math.Float64bits(g) != math.Float64bits(c.f)) {
		return bad("Float64", g, err, c.fOK, c.f)
	}
	if g, err := n.Number(); (err == nil) != c.numOK || (c.numOK && string(g) != c.num) {
		return bad("Number", g, err, c.numOK, c.num)
	}
	if g, err := n.String(); (err == nil) != c.sOK || (c.sOK && g != c.s) {
		return bad("String", g, err, c.sOK, c.s)
	}
	// the strict accessors
	if g, err := n.StrictBool(); (err == nil) != strictB || (strictB && g != c.b) {
		return bad("StrictBool", g, err, strictB, c.b)
	}
	if g, err := n.StrictString(); (err == nil) != strictS || (strictS && g != c.s) {
		return bad("StrictString", g, err, strictS, c.s)
	}
	if g, err := n.StrictNumber(); (err == nil) != strictN || (strictN && string(g) != c.num) {
		return bad("StrictNumber", g, err, strictN, c.num)
	}
	if g, err := n.StrictFloat64(); (err == nil) != (strictN && c.fOK) || (strictN && c.fOK && math.Float64bits(g) != math.Float64bits(c.f)) {
		return bad("StrictFloat64", g, err, strictN && c.fOK, c.f)
	}
	{
		wi, e := strconv.ParseInt(string(span), 10, 64)
		ok := strictN && e == nil
		if g, err := n.StrictInt64(); (err == nil) != ok || (ok && g != wi) {
			return bad("StrictInt64", g, err, ok, wi)
		}
	}
	// Type / TypeSafe / Valid
	wantType := map[int]int{ref.TObjOpen: ast.V_OBJECT, ref.TArrOpen: ast.V_ARRAY, ref.TString: ast.V_STRING, ref.TNumber: ast.V_NUMBER, ref.TTrue: ast.V_TRUE, ref.TFalse: ast.V_FALSE, ref.TNull: ast.V_NULL}[want.Kind]
	if g := n.TypeSafe(); g != wantType {
		return fmt.Sprintf("TypeSafe() on a %s = %d, want %d", kindName, g, wantType)
	}
	if g := n.Type(); g != wantType {
		return fmt.Sprintf("Type() on a %s = %d, want %d", kindName, g, wantType)
	}
	if !n.Valid() {
		return fmt.Sprintf("Valid() = false on a located %s", kindName)
	}
	if want.Kind == ref.TString {
		if l, err := n.Len(); err != nil || l != len(c.s) {
			return fmt.Sprintf("Len() on a string %s = %d, %v; want %d", clipB(span), l, err, len(c.s))
		}
	}
	// wrong-kind container views are refused
	if want.Kind != ref.TObjOpen {
		if m, err := n.MapUseNode(); err == nil {
			return fmt.Sprintf("MapUseNode() on a %s succeeds (%d entries)", kindName, len(m))
		}
		if m, err := n.MapUseNumber(); err == nil {
			return fmt.Sprintf("MapUseNumber() on a %s succeeds (%d entries)", kindName, len(m))
		}
		if _, err := n.Properties(); err == nil {
			return fmt.Sprintf("Properties() on a %s succeeds", kindName)
		}
		if p := n.IndexPair(0); p != nil {
			return fmt.Sprintf("IndexPair(0) on a %s returns a pair", kindName)
		}
	}
	if want.Kind != ref.TArrOpen {
		if a, err := n.ArrayUseNumber(); err == nil {
			return fmt.Sprintf("ArrayUseNumber() on a %s succeeds (%d elements)", kindName, len(a))
		}
		if a, err := n.ArrayUseNode(); err == nil {
			return fmt.Sprintf("ArrayUseNode() on a %s succeeds (%d elements)", kindName, len(a))
		}
		if _, err := n.Values(); err == nil {
			return fmt.Sprintf("Values() on a %s succeeds", kindName)
		}
	}
	rawEq := func(x *ast.Node, w *ref.Node) bool {
		r, err := x.Raw()
		return err == nil && ref.TokensEqual(doc[w.Beg:w.End], []byte(r), false) == ""
	}
	switch want.Kind {
	case ref.TArrOpen:
		// positional reads first (the node may still be lazy): in range, just past the end, far past the end
		for _, i := range []int{len(want.Elems) - 1, 0, len(want.Elems) / 2, len(want.Elems), len(want.Elems) + 7, -1} {
			sub := n.Index(i)
			inRange := i >= 0 && i < len(want.Elems)
			found := sub != nil && sub.Exists() && sub.Check() == nil
			if found != inRange {
				return fmt.Sprintf("Index(%d) on an array of %d: found=%v", i, len(want.Elems), found)
			}
			if found && !rawEq(sub, want.Elems[i]) {
				r, _ := sub.Raw()
				return fmt.Sprintf("Index(%d) = %s, want %s", i, clipS(r), clipB(doc[want.Elems[i].Beg:want.Elems[i].End]))
			}
		}
		copies := func() string {
			it, err := n.Values()
			if err != nil {
				return fmt.Sprintf("Values() error %v", err)
			}
			pos := 0
			var v ast.Node
			for it.HasNext() {
				if it.Pos() != pos {
					return fmt.Sprintf("Values().Pos() = %d before element %d", it.Pos(), pos)
				}
				if !it.Next(&v) {
					return fmt.Sprintf("Values(): HasNext() true but Next() false at %d", pos)
				}
				if pos >= len(want.Elems) || !rawEq(&v, want.Elems[pos]) {
					return fmt.Sprintf("Values() element %d differs from the source", pos)
				}
				pos++
			}
			if pos != len(want.Elems) {
				return fmt.Sprintf("Values() with HasNext yields %d elements, want %d", pos, len(want.Elems))
			}
			if it.Len() != len(want.Elems) {
				return fmt.Sprintf("Values().Len() = %d after full iteration, want %d", it.Len(), len(want.Elems))
			}
			iv, err := n.InterfaceUseNode()
			nodes, ok := iv.([]ast.Node)
			if err != nil || !ok || len(nodes) != len(want.Elems) {
				return fmt.Sprintf("InterfaceUseNode() on an array = %T (len %d), %v; want %d nodes", iv, len(nodes), err, len(want.Elems))
			}
			for i := range nodes {
				if !rawEq(&nodes[i], want.Elems[i]) {
					return fmt.Sprintf("InterfaceUseNode()[%d] differs from the source", i)
				}
			}
			return ""
		}
		convs := func() string {
			var jn interface{}
			dec := json.NewDecoder(strings.NewReader(string(span)))
			dec.UseNumber()
			if dec.Decode(&jn) == nil {
				a, err := n.ArrayUseNumber()
				if err != nil {
					return fmt.Sprintf("ArrayUseNumber() error %v", err)
				}
				if d := deepEq(reflect.ValueOf(jn), reflect.ValueOf(a), "", 0); d != "" {
					return fmt.Sprintf("ArrayUseNumber() differs from encoding/json (UseNumber) at %s", d)
				}
			}
			return ""
		}
		steps := []func() string{convs, copies}
		if copiesFirst {
			steps = []func() string{copies, convs}
		}
		for _, st := range steps {
			if d := st(); d != "" {
				return d
			}
		}
	case ref.TObjOpen:
		nk := len(want.Keys)
		// positional and mixed reads first (the node may still be lazy)
		for _, i := range []int{nk - 1, 0, nk / 2, nk, nk + 5, -1} {
			inRange := i >= 0 && i < nk
			p := n.IndexPair(i)
			if (p != nil) != inRange {
				return fmt.Sprintf("IndexPair(%d) on an object of %d members: pair=%v", i, nk, p != nil)
			}
			if p != nil && (p.Key != want.Keys[i].Str || !rawEq(&p.Value, want.Elems[i])) {
				return fmt.Sprintf("IndexPair(%d) = key %q, want member %d (key %q, value %s)", i, p.Key, i, want.Keys[i].Str, clipB(doc[want.Elems[i].Beg:want.Elems[i].End]))
			}
			sub := n.Index(i)
			found := sub != nil && sub.Exists() && sub.Check() == nil
			if found != inRange {
				return fmt.Sprintf("Index(%d) on an object of %d members: found=%v", i, nk, found)
			}
			if found && !rawEq(sub, want.Elems[i]) {
				return fmt.Sprintf("Index(%d) on an object differs from the value of member %d", i, i)
			}
		}
		// IndexOrGet: the member at idx if its key matches, otherwise the first member with that key
		for hint := 0; hint < nk && hint < 40; hint++ {
			for _, j := range []int{hint, (hint + 1) % nk, nk - 1 - hint} {
				key := want.Keys[j].Str
				wantIdx := hint
				if want.Keys[hint].Str != key {
					wantIdx = firstIndexOfKey(want, key)
				}
				sub, gi := n.IndexOrGetWithIdx(hint, key)
				if sub == nil || !sub.Exists() || !rawEq(sub, want.Elems[wantIdx]) {
					return fmt.Sprintf("IndexOrGetWithIdx(%d, %q): wrong or missing value, want member %d", hint, key, wantIdx)
				}
				if gi != wantIdx {
					return fmt.Sprintf("IndexOrGetWithIdx(%d, %q) reports index %d, want %d", hint, key, gi, wantIdx)
				}
				if s2 := n.IndexOrGet(hint, key); s2 == nil || !s2.Exists() || !rawEq(s2, want.Elems[wantIdx]) {
					return fmt.Sprintf("IndexOrGet(%d, %q): wrong or missing value, want member %d", hint, key, wantIdx)
				}
			}
		}
		if sub, _ := n.IndexOrGetWithIdx(nk+3, "\x00no such key\x00"); sub != nil && sub.Exists() {
			return "IndexOrGetWithIdx finds a key that is not there"
		}
		copies := func() string {
			it, err := n.Properties()
			if err != nil {
				return fmt.Sprintf("Properties() error %v", err)
			}
			pos := 0
			var p ast.Pair
			for it.HasNext() {
				if it.Pos() != pos {
					return fmt.Sprintf("Properties().Pos() = %d before member %d", it.Pos(), pos)
				}
				if !it.Next(&p) {
					return fmt.Sprintf("Properties(): HasNext() true but Next() false at %d", pos)
				}
				if pos >= nk || p.Key != want.Keys[pos].Str || !rawEq(&p.Value, want.Elems[pos]) {
					return fmt.Sprintf("Properties() member %d differs from the source", pos)
				}
				pos++
			}
			if pos != nk {
				return fmt.Sprintf("Properties() with HasNext yields %d members, want %d", pos, nk)
			}
			if it.Len() != nk {
				return fmt.Sprintf("Properties().Len() = %d after full iteration, want %d", it.Len(), nk)
			}
			// node views keep one entry per distinct key, holding the value encoding/json keeps (the last occurrence)
			last := map[string]int{}
			for i, k := range want.Keys {
				last[k.Str] = i
			}
			checkNodeMap := func(name string, m map[string]ast.Node) string {
				if len(m) != len(last) {
					return fmt.Sprintf("%s has %d entries, the object has %d distinct keys", name, len(m), len(last))
				}
				for k, i := range last {
					x, ok := m[k]
					if !ok || !rawEq(&x, want.Elems[i]) {
						return fmt.Sprintf("%s[%q] missing or not the last occurrence of the key", name, k)
					}
				}
				return ""
			}
			m, err := n.MapUseNode()
			if err != nil {
				return fmt.Sprintf("MapUseNode() error %v", err)
			}
			if d := checkNodeMap("MapUseNode()", m); d != "" {
				return d
			}
			iv, err := n.InterfaceUseNode()
			m2, ok := iv.(map[string]ast.Node)
			if err != nil || !ok {
				return fmt.Sprintf("InterfaceUseNode() on an object = %T, %v", iv, err)
			}
			if d := checkNodeMap("InterfaceUseNode()", m2); d != "" {
				return d
			}
			return ""
		}
		convs := func() string {
			var jn interface{}
			dec := json.NewDecoder(strings.NewReader(string(span)))
			dec.UseNumber()
			if dec.Decode(&jn) == nil {
				m, err := n.MapUseNumber()
				if err != nil {
					return fmt.Sprintf("MapUseNumber() error %v", err)
				}
				if d := deepEq(reflect.ValueOf(jn), reflect.ValueOf(m), "", 0); d != "" {
					return fmt.Sprintf("MapUseNumber() differs from encoding/json (UseNumber) at %s", d)
				}
			}
			return ""
		}
		steps := []func() string{convs, copies}
		if copiesFirst {
			steps = []func() string{copies, convs}
		}
		for _, st := range steps {
			if d := st(); d != "" {
				return d
			}
		}
	default:
		iv, err := n.InterfaceUseNode()
		x, ok := iv.(ast.Node)
		if err != nil || !ok || !rawEq(&x, want) {
			return fmt.Sprintf("InterfaceUseNode() on a %s = %T, %v: not a node describing the value", kindName, iv, err)
		}
	}
	return ""
}
