// Package props holds, per property, a serialisable case type, its plain
// library-free evaluation (Run) and the rapid entry point that only draws cases.
package props

import (
	"encoding/json"
	"fmt"
	"os"
	"path/filepath"
	"runtime/debug"
	"strconv"
	"strings"
	"testing"

	"pgregory.net/rapid"
	"verif/harness/stat"
)

// Case is one generated case of one property, as plain data.
type Case interface {
	Run() stat.Result
}

// envelope is the on-disk form of a case.
type envelope struct {
	Prop string          `json:"prop"`
	Case json.RawMessage `json:"case"`
	Err  string          `json:"error,omitempty"`
}

var registry = map[string]func() Case{}

// register associates a property id with a constructor of its (empty) case.
func register(prop string, mk func() Case) { registry[prop] = mk }

// Tier returns "quick" or "thorough".
func Tier() string {
	if os.Getenv("VERIF_TIER") == "thorough" {
		return "thorough"
	}
	return "quick"
}

func thorough() bool { return Tier() == "thorough" }

// envInt reads an integer knob from the environment.
func envInt(name string, def int) int {
	if v, err := strconv.Atoi(os.Getenv(name)); err == nil {
		return v
	}
	return def
}

type journal struct{ f *os.File }

func openJournal(dir string) *journal {
	f, err := os.OpenFile(filepath.Join(dir, "journal.json"), os.O_CREATE|os.O_RDWR|os.O_TRUNC, 0o644)
	if err != nil {
		return &journal{}
	}
	return &journal{f}
}

func (j *journal) write(b []byte) {
	if j.f == nil {
		return
	}
	j.f.WriteAt(b, 0)
	j.f.Truncate(int64(len(b)))
}

func encodeCase(prop string, c Case, errText string) []byte {
	cb, err := json.Marshal(c)
	if err != nil {
		panic("case not serialisable: " + err.Error())
	}
	b, _ := json.Marshal(envelope{Prop: prop, Case: cb, Err: errText})
	return b
}

// safeRun evaluates a case, turning a Go panic into a violation.
func safeRun(c Case) (res stat.Result) {
	defer func() {
		if p := recover(); p != nil {
			st := string(debug.Stack())
			if len(st) > 3000 {
				st = st[:3000]
			}
			res.Err = fmt.Errorf("panic: %v\n%s", p, st)
		}
	}()
	return c.Run()
}

// runProp is the rapid entry point shared by all properties.
func runProp(t *testing.T, prop string, draw func(*rapid.T) Case) {
	rec := stat.New(prop)
	dir := stat.OutDir()
	jr := openJournal(dir)
	failPath := filepath.Join(dir, "fail.case.json")
	os.Remove(failPath)
	failed := false
	defer func() { rec.Flush(failed || t.Failed()) }()
	defer stopAllWorkers()
	rapid.Check(t, func(rt *rapid.T) {
		c := draw(rt)
		canon := encodeCase(prop, c, "")
		jr.write(canon)
		res := safeRun(c)
		rec.Record(canon, res)
		if res.Err != nil {
			failed = true
			os.WriteFile(failPath, encodeCase(prop, c, res.Err.Error()), 0o644)
			rt.Fatalf("%s violated: %v", prop, res.Err)
		}
	})
}

// LoadCase reads a case file.
func LoadCase(path string) (string, Case, error) {
	b, err := os.ReadFile(path)
	if err != nil {
		return "", nil, err
	}
	var e envelope
	if err := json.Unmarshal(b, &e); err != nil {
		return "", nil, err
	}
	mk, ok := registry[e.Prop]
	if !ok {
		return e.Prop, nil, fmt.Errorf("unknown property %q", e.Prop)
	}
	c := mk()
	dec := json.NewDecoder(strings.NewReader(string(e.Case)))
	if err := dec.Decode(c); err != nil {
		return e.Prop, nil, err
	}
	return e.Prop, c, nil
}
