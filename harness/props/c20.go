package props

import (
	"bytes"
	"encoding/json"
	"fmt"
	"strings"
	"unicode/utf8"

	"github.com/bytedance/sonic"
	"github.com/bytedance/sonic/encoder"
	"github.com/bytedance/sonic/unquote"
	sutf8 "github.com/bytedance/sonic/utf8"
	"pgregory.net/rapid"
	"verif/harness/gen"
	"verif/harness/ref"
	"verif/harness/stat"
)

// C20Case: one byte string run through quote / unquote / HTML-escape / UTF-8
// routines directly and through the codecs, at one alignment and capacity.
type C20Case struct {
	Data   []byte `json:"data"`   // raw bytes (used as Go string content and as src)
	Body   []byte `json:"body"`   // body of a JSON string literal (escaped form), for unquote
	Align  int    `json:"align"`  // offset from a 64-byte boundary
	Prefix int    `json:"prefix"` // length of the destination prefix
	Spare  int    `json:"spare"`  // spare capacity of destination beyond the prefix
	Repl   string `json:"repl"`
}

func init() { register("C20", func() Case { return &C20Case{} }) }

func drawC20(t *rapid.T) Case {
	c := &C20Case{}
	long := thorough()
	switch rapid.IntRange(0, 6).Draw(t, "datasrc") {
	case 0:
		c.Data = gen.RawBytes(t, 200)
	case 2:
		// dense runs of bytes that expand most when escaped (6 output bytes for 1 or 3 input bytes):
		// the output buffer fills up several times within one call
		var b bytes.Buffer
		for k := rapid.IntRange(1, 3).Draw(t, "nruns"); k > 0; k-- {
			b.WriteString(strings.Repeat("plain ", rapid.IntRange(0, 3).Draw(t, "plain")))
			unit := []string{"<", ">", "&", "\u2028", "\u2029", "<&>", "\"", "\\", "\x00", "\x1f", "\n", "\xff", "\xe2\x80", "é<"}[rapid.IntRange(0, 13).Draw(t, "unit")]
			// (4096 is the capacity of the position stack utf8.CorrectWith works with)
			n := []int{1, 7, 15, 16, 17, 31, 32, 33, 63, 64, 65, 100, 200, 500, 1000, 2500, 4095, 4096, 4097, 5000, 8192, 8193, 9000}[rapid.IntRange(0, 22).Draw(t, "runlen")]
			if n > 2500 && len(unit) > 2 {
				n /= 2
			}
			b.WriteString(strings.Repeat(unit, n))
			if rapid.Bool().Draw(t, "tail") {
				b.WriteString("tail")
			}
		}
		c.Data = b.Bytes()
	case 1:
		// exact length sweep 0..200 with one special byte somewhere
		n := rapid.IntRange(0, 200).Draw(t, "len")
		c.Data = bytes.Repeat([]byte{'a'}, n)
		if n > 0 {
			sp := []byte("\"\\<>&\n\x00\x1f\x7f\xff\xc3\xe2")[rapid.IntRange(0, 11).Draw(t, "sp")]
			c.Data[rapid.IntRange(0, n-1).Draw(t, "sppos")] = sp
		}
	default:
		c.Data = []byte(gen.GoString(t, true, long))
	}
	c.Body = gen.StringBody(t, gen.StrOpt{Control: true, InvalidUTF8: true, BadEscape: true, LoneSurr: true, Long: long})
	c.Align = rapid.IntRange(0, 63).Draw(t, "align")
	c.Prefix = rapid.IntRange(0, 40).Draw(t, "prefix")
	c.Spare = []int{0, 0, 1, 7, 16, 31, 32, 33, 64, 200, 5000}[rapid.IntRange(0, 10).Draw(t, "spare")]
	c.Repl = []string{"\ufffd", "", "?", "<bad>"}[rapid.IntRange(0, 3).Draw(t, "repl")]
	return c
}

type cfgStringField struct {
	A string `json:"a,string"`
}

func (c *C20Case) Run() (res stat.Result) {
	fail := func(f string, a ...interface{}) stat.Result {
		res.Err = fmt.Errorf(f, a...)
		return res
	}
	data := alignedCopy(c.Data, c.Align, 0, 0xAA)
	s := bytesToString(data)
	validData := utf8.Valid(c.Data)
	needs := false
	for _, b := range c.Data {
		if b < 0x20 || b == '"' || b == '\\' || b >= 0x80 || b == '<' || b == '>' || b == '&' {
			needs = true
			break
		}
	}

	// ---- Quote
	res.Sub++
	q := encoder.Quote(s)
	if len(q) < 2 || q[0] != '"' || q[len(q)-1] != '"' {
		return fail("Quote: not a literal: %q", q)
	}
	if toks, ok := ref.Scan([]byte(q)); !ok || len(toks) != 1 || toks[0].Kind != ref.TString || toks[0].End != len(q) {
		return fail("Quote: output is not exactly one string token: %q", q)
	}
	inner := []byte(q[1 : len(q)-1])
	for _, b := range inner {
		if b < 0x20 {
			return fail("Quote: raw control byte in output %q", q)
		}
	}
	back, fl := ref.UnquoteRawBytes(inner)
	if fl.BadEscape || !bytes.Equal(back, c.Data) {
		return fail("Quote: literal %q does not decode back to input %q (got %q)", q, c.Data, back)
	}
	if validData {
		var js string
		if err := json.Unmarshal([]byte(q), &js); err != nil || js != string(c.Data) {
			return fail("Quote: encoding/json decodes %q to %q, %v; want %q", q, js, err, c.Data)
		}
	}

	// ---- Marshal(string) under ConfigDefault equals Quote; ConfigStd agrees with encoding/json
	res.Sub++
	mb, err := sonic.ConfigDefault.Marshal(s)
	if err != nil || string(mb) != q {
		return fail("ConfigDefault.Marshal(string)=%q,%v differs from Quote=%q", mb, err, q)
	}
	res.Sub++
	jb, _ := json.Marshal(string(c.Data))
	sb, err := sonic.ConfigStd.Marshal(s)
	if err != nil {
		return fail("ConfigStd.Marshal(string) error %v", err)
	}
	if d := ref.TokensEqual(jb, sb, false); d != "" {
		return fail("ConfigStd.Marshal(string) vs encoding/json: %s", d)
	}
	// as map key and ,string field
	res.Sub++
	jm, _ := json.Marshal(map[string]int{string(c.Data): 1})
	sm, err := sonic.ConfigStd.Marshal(map[string]int{s: 1})
	if err != nil {
		return fail("ConfigStd.Marshal(map key) error %v", err)
	}
	if d := ref.TokensEqual(jm, sm, false); d != "" {
		return fail("map key: %s", d)
	}
	res.Sub++
	jf, _ := json.Marshal(cfgStringField{string(c.Data)})
	sf, err := sonic.ConfigStd.Marshal(cfgStringField{s})
	if err != nil {
		return fail("ConfigStd.Marshal(,string) error %v", err)
	}
	if d := ref.TokensEqual(jf, sf, true); d != "" {
		return fail(",string field: %s", d)
	}

	// ---- HTMLEscape (arbitrary src, prefix preserved, any capacity)
	res.Sub++
	var want bytes.Buffer
	json.HTMLEscape(&want, c.Data)
	prefix := bytes.Repeat([]byte{'P'}, c.Prefix)
	dst := make([]byte, c.Prefix, c.Prefix+c.Spare)
	copy(dst, prefix)
	got := encoder.HTMLEscape(dst, data)
	if !bytes.Equal(got[:min(len(got), c.Prefix)], prefix) || !bytes.Equal(got[min(len(got), c.Prefix):], want.Bytes()) {
		return fail("HTMLEscape(prefix %d, spare %d, %q) = %q, want prefix+%q", c.Prefix, c.Spare, c.Data, got, want.Bytes())
	}
	if !bytes.Equal(data, c.Data) {
		return fail("HTMLEscape modified its source")
	}

	// ---- UTF-8
	res.Sub += 3
	if v := sutf8.Validate(data); v != validData {
		return fail("utf8.Validate(%q)=%v, unicode/utf8 says %v", c.Data, v, validData)
	}
	if v := sutf8.ValidateString(s); v != validData {
		return fail("utf8.ValidateString(%q)=%v, unicode/utf8 says %v", c.Data, v, validData)
	}
	dst2 := make([]byte, c.Prefix, c.Prefix+c.Spare)
	copy(dst2, prefix)
	cor := sutf8.CorrectWith(dst2, data, c.Repl)
	wantCor := append(append([]byte(nil), prefix...), ref.CorrectUTF8(c.Data, []byte(c.Repl))...)
	if !bytes.Equal(cor, wantCor) {
		return fail("utf8.CorrectWith(%q, repl %q) = %q, want %q", c.Data, c.Repl, cor, wantCor)
	}

	// ---- unquote.String / IntoBytes on a literal body
	body := alignedCopy(c.Body, c.Align, 0, '"')
	bs := bytesToString(body)
	wantU, ufl := ref.UnquoteRawBytes(c.Body)
	hasRawQuote := false
	for i := 0; i < len(c.Body); i++ {
		if c.Body[i] == '\\' {
			i++
		} else if c.Body[i] == '"' {
			hasRawQuote = true
		}
	}
	if !hasRawQuote {
		res.Sub += 2
		us, uerr := unquote.String(bs)
		buf := make([]byte, 0, len(bs)+c.Spare)
		uerr2 := unquote.IntoBytes(bs, &buf)
		if ufl.BadEscape {
			if uerr == 0 {
				return fail("unquote.String(%q) accepted a malformed escape, result %q", c.Body, us)
			}
			if uerr2 == 0 {
				return fail("unquote.IntoBytes(%q) accepted a malformed escape, result %q", c.Body, buf)
			}
		} else {
			if uerr != 0 {
				return fail("unquote.String(%q) error %v, want %q", c.Body, uerr, wantU)
			}
			if us != string(wantU) {
				return fail("unquote.String(%q) = %q, want %q", c.Body, us, wantU)
			}
			if uerr2 != 0 || !bytes.Equal(buf, wantU) {
				return fail("unquote.IntoBytes(%q) = %q,%v want %q", c.Body, buf, uerr2, wantU)
			}
			// encoding/json agreement when the literal is one it accepts and is valid UTF-8
			var js string
			if json.Unmarshal(gen.Literal(c.Body), &js) == nil && !ufl.InvalidUTF8 && js != us {
				return fail("unquote.String(%q) = %q, encoding/json gives %q", c.Body, us, js)
			}
		}
		// ---- the same literal through Unmarshal (ConfigStd): parity with encoding/json
		res.Sub += 3
		lit := gen.Literal(c.Body)
		var js, ss string
		je := json.Unmarshal(lit, &js)
		se := sonic.ConfigStd.Unmarshal(lit, &ss)
		if (je == nil) != (se == nil) {
			return fail("Unmarshal(%q) into string: encoding/json err=%v, sonic err=%v", lit, je, se)
		}
		if je == nil && js != ss {
			return fail("Unmarshal(%q) into string: encoding/json %q, sonic %q", lit, js, ss)
		}
		// as a map key
		doc := append(append([]byte(`{`), lit...), `:1}`...)
		var jm2, sm2 map[string]int
		je = json.Unmarshal(doc, &jm2)
		se = sonic.ConfigStd.Unmarshal(doc, &sm2)
		if (je == nil) != (se == nil) {
			return fail("Unmarshal(%q) as map key: encoding/json err=%v, sonic err=%v", doc, je, se)
		}
		if je == nil && fmt.Sprint(jm2) != fmt.Sprint(sm2) {
			return fail("Unmarshal(%q) as map key: encoding/json %q, sonic %q", doc, jm2, sm2)
		}
		// into interface{}
		var ji, si interface{}
		je = json.Unmarshal(lit, &ji)
		se = sonic.ConfigStd.Unmarshal(lit, &si)
		if (je == nil) != (se == nil) || (je == nil && ji != si) {
			return fail("Unmarshal(%q) into interface{}: encoding/json %q,%v sonic %q,%v", lit, ji, je, si, se)
		}
	}

	escBody := ufl.HasEscape || ufl.InvalidUTF8
	res.NonTrivial = (needs && len(c.Data) >= 16) || (escBody && len(c.Body) >= 16) || (c.Spare < want.Len() && needs)
	res.Classes = append(res.Classes, fmt.Sprintf("len%%32=%d", len(c.Data)%32))
	if ufl.BadEscape {
		res.Classes = append(res.Classes, "body-bad-escape")
	}
	if ufl.LoneSurr {
		res.Classes = append(res.Classes, "body-lone-surrogate")
	}
	if !validData {
		res.Classes = append(res.Classes, "data-invalid-utf8")
	}
	if len(c.Data) > 4000 {
		res.Classes = append(res.Classes, "data>4000")
	}
	return res
}

func min(a, b int) int {
	if a < b {
		return a
	}
	return b
}
