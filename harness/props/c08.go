package props

import (
	"encoding/json"
	"fmt"
	"reflect"
	"runtime"
	"strings"
	"sync"

	"github.com/bytedance/sonic"
	"github.com/bytedance/sonic/option"
	"pgregory.net/rapid"
	"verif/harness/gen"
	"verif/harness/stat"
	"verif/harness/tv"
)

// C08Case: concurrent codec calls over types the process has never seen.
type C08Case struct {
	Types   []TypedValue `json:"types"`   // fresh types, each with one value
	Gs      [][]C08Op    `json:"gs"`      // per goroutine op list
	Prewarm []int        `json:"prewarm"` // indexes of types used once before the goroutines start
}

type C08Op struct {
	Op string `json:"op"` // marshal | unmarshal | valid | get | pretouch | pretouchmany | gc | yield | marshalbad | marshalhtml | marshalnested | marshalbig
	T  int    `json:"t"`
}

func init() { register("C08", func() Case { return &C08Case{} }) }

var c08Ops = []string{"marshal", "marshal", "unmarshal", "unmarshal", "valid", "get", "pretouch", "pretouchmany", "gc", "yield", "marshalbad", "marshalhtml", "marshalnested", "marshalbig"}

// c08Nested re-enters the encoder from inside a Marshaler: two pooled encoder buffers are live at once on one goroutine.
type c08Nested struct{ V interface{} }

func (n c08Nested) MarshalJSON() ([]byte, error) {
	in, err := sonic.ConfigStd.Marshal(n.V)
	if err != nil {
		return nil, err
	}
	return append(append([]byte(`{"in":`), in...), '}'), nil
}

var c08HTML = sonic.Config{EscapeHTML: true, SortMapKeys: true}.Froze()

func drawC08(t *rapid.T) Case {
	c := &C08Case{}
	k := rapid.IntRange(1, 4).Draw(t, "ntypes")
	for i := 0; i < k; i++ {
		tvv, _, _ := drawTypedValue(t, gen.TypeOpt{Flav: gen.FlavRoundTrip, Fresh: true, MaxDepth: 2, MaxFields: 4}, gen.ValOpt{RoundTrip: true, HTMLFree: true, InvalidUTF8: rapid.Bool().Draw(t, "badutf8")})
		c.Types = append(c.Types, tvv)
	}
	g := rapid.IntRange(2, 8).Draw(t, "goroutines")
	for i := 0; i < g; i++ {
		n := rapid.IntRange(1, 6).Draw(t, "nops")
		var ops []C08Op
		for j := 0; j < n; j++ {
			ops = append(ops, C08Op{Op: c08Ops[rapid.IntRange(0, len(c08Ops)-1).Draw(t, "op")], T: rapid.IntRange(0, k-1).Draw(t, "t")})
		}
		c.Gs = append(c.Gs, ops)
	}
	if rapid.IntRange(0, 3).Draw(t, "prewarm") == 0 {
		c.Prewarm = []int{rapid.IntRange(0, k-1).Draw(t, "pw")}
	}
	return c
}

type c08Result struct {
	out string
	err bool
}

func c08Do(op C08Op, ty reflect.Type, v reflect.Value, doc []byte) c08Result {
	switch op.Op {
	case "marshal":
		b, err := sonic.ConfigStd.Marshal(v.Interface())
		return c08Result{string(b), err != nil}
	case "marshalbad":
		// ValidateString repairs invalid UTF-8 in a second buffer (the pooled buffers are swapped)
		b, err := sonic.ConfigStd.Marshal([]interface{}{"bad\xff" + strings.Repeat("y\xc0", op.T*7), v.Interface()})
		return c08Result{string(b), err != nil}
	case "marshalhtml":
		b, err := c08HTML.Marshal([]interface{}{"<" + strings.Repeat("&>", op.T*9), v.Interface()})
		return c08Result{string(b), err != nil}
	case "marshalnested":
		b, err := sonic.ConfigStd.Marshal([]interface{}{c08Nested{v.Interface()}, "tail\xfe", c08Nested{[]interface{}{c08Nested{op.T}}}})
		return c08Result{string(b), err != nil}
	case "marshalbig":
		// output beyond the size the buffer pool keeps
		b, err := sonic.ConfigStd.Marshal([]interface{}{strings.Repeat("big\xff", 3000+op.T), v.Interface()})
		return c08Result{string(b), err != nil}
	case "unmarshal":
		dst := reflect.New(ty)
		err := sonic.ConfigStd.Unmarshal(doc, dst.Interface())
		if err != nil {
			return c08Result{"", true}
		}
		return c08Result{dumpValue(dst.Elem()), false}
	case "valid":
		return c08Result{fmt.Sprint(sonic.Valid(doc)), false}
	case "get":
		n, err := sonic.Get(doc)
		if err != nil {
			return c08Result{"", true}
		}
		r, err := n.Raw()
		return c08Result{r, err != nil}
	case "pretouch":
		err := sonic.Pretouch(ty)
		return c08Result{"", err != nil}
	case "pretouchmany":
		err := sonic.PretouchMany([]reflect.Type{ty, reflect.PtrTo(ty)}, option.WithCompileRecursiveDepth(2))
		return c08Result{"", err != nil}
	case "gc":
		runtime.GC()
	case "yield":
		runtime.Gosched()
	}
	return c08Result{}
}

func (c *C08Case) Run() (res stat.Result) {
	k := len(c.Types)
	tys := make([]reflect.Type, k)
	vals := make([]reflect.Value, k)
	docs := make([][]byte, k)
	for i := range c.Types {
		ty, v, err := c.Types[i].Materialise()
		if err != nil {
			res.Err = fmt.Errorf("harness: %v", err)
			return
		}
		tys[i], vals[i] = ty, v
		// the document for decoding is produced by encoding/json: no sonic code runs before the goroutines start
		docs[i], err = json.Marshal(v.Interface())
		if err != nil {
			res.Err = fmt.Errorf("harness: %v", err)
			return
		}
		res.Programs += 2 * firstUse(ty)
	}
	for _, i := range c.Prewarm {
		c08Do(C08Op{Op: "marshal", T: i}, tys[i], vals[i], docs[i])
	}
	results := make([][]c08Result, len(c.Gs))
	panics := make([]interface{}, len(c.Gs))
	start := make(chan struct{})
	var wg sync.WaitGroup
	for g := range c.Gs {
		wg.Add(1)
		results[g] = make([]c08Result, len(c.Gs[g]))
		go func(g int) {
			defer wg.Done()
			defer func() {
				if p := recover(); p != nil {
					panics[g] = p
				}
			}()
			<-start
			for j, op := range c.Gs[g] {
				results[g][j] = c08Do(op, tys[op.T], vals[op.T], docs[op.T])
			}
		}(g)
	}
	close(start)
	wg.Wait()
	firstUsers := map[int]int{}
	for g := range c.Gs {
		res.Sub += len(c.Gs[g])
		if panics[g] != nil {
			res.Err = fmt.Errorf("goroutine %d panicked: %v", g, panics[g])
			return
		}
		seen := map[int]bool{}
		for _, op := range c.Gs[g] {
			if !seen[op.T] && (op.Op == "marshal" || op.Op == "unmarshal" || op.Op == "pretouch" || op.Op == "pretouchmany") {
				seen[op.T] = true
				firstUsers[op.T]++
			}
		}
	}
	// sequential oracle
	for g := range c.Gs {
		for j, op := range c.Gs[g] {
			want := c08Do(op, tys[op.T], vals[op.T], docs[op.T])
			got := results[g][j]
			if want != got {
				res.Err = fmt.Errorf("goroutine %d op %d (%s on %s): concurrent result (err=%v) %s differs from the sequential result (err=%v) %s", g, j, op.Op, tys[op.T], got.err, clipS(got.out), want.err, clipS(want.out))
				return
			}
			if op.Op == "marshal" && !want.err && got.out != string(docs[op.T]) {
				// token-level agreement with encoding/json was established by C03; here byte equality suffices for sorted output of round-trippable values
				if json.Valid([]byte(got.out)) == false {
					res.Err = fmt.Errorf("goroutine %d op %d: malformed output %s", g, j, clipS(got.out))
					return
				}
			}
		}
	}
	for _, n := range firstUsers {
		if n >= 2 {
			res.NonTrivial = true
			res.Classes = append(res.Classes, "first-use-race")
		}
	}
	pooled := 0
	for g := range c.Gs {
		for _, op := range c.Gs[g] {
			if strings.HasPrefix(op.Op, "marshal") && op.Op != "marshal" {
				pooled++
				break
			}
		}
	}
	if pooled >= 2 {
		res.Classes = append(res.Classes, "pool-swap-race")
	}
	res.Classes = append(res.Classes, fmt.Sprintf("goroutines=%d", len(c.Gs)))
	if len(c.Prewarm) > 0 {
		res.Classes = append(res.Classes, "prewarmed")
	}
	_ = tv.Dump
	return
}
