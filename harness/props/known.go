package props

import (
	"encoding/json"
	"os"
	"sync"
)

var (
	knownOnce sync.Once
	knownSet  map[string]bool
)

// knownListed reports whether finding id is listed with status "known" in
// known_findings.json (path in VERIF_KNOWN, default /verif/known_findings.json).
// A classifier may only excuse a mismatch whose finding is listed; if the
// entry is removed from the file the mismatch is reported as a violation again.
func knownListed(id string) bool {
	knownOnce.Do(func() {
		knownSet = map[string]bool{}
		p := os.Getenv("VERIF_KNOWN")
		if p == "" {
			p = "/verif/known_findings.json"
		}
		b, err := os.ReadFile(p)
		if err != nil {
			return
		}
		var f struct {
			Findings []struct {
				ID     string `json:"id"`
				Status string `json:"status"`
			} `json:"findings"`
		}
		if json.Unmarshal(b, &f) == nil {
			for _, x := range f.Findings {
				if x.Status == "known" {
					knownSet[x.ID] = true
				}
			}
		}
	})
	return knownSet[id]
}
