package props

import (
	"bufio"
	"encoding/json"
	"fmt"
	"io"
	"os"
	"os/exec"
	"reflect"
	"runtime/debug"
	"strings"
	"sync"
	"time"

	"github.com/bytedance/sonic"
	"github.com/bytedance/sonic/encoder"
	"github.com/bytedance/sonic/verifhook"
	"verif/harness/stat"
	"verif/harness/tv"
)

// Transcripter is implemented by cases whose observable results can be rendered as one line of text,
// so that the same case can be executed in worker processes running under another environment
// (SONIC_MODE, SONIC_USE_OPTDEC, SONIC_ENCODER_USE_VM, GOGC, GODEBUG ...) and compared.
type Transcripter interface {
	Transcript() string
}

type workerReq struct {
	Prop string          `json:"prop"`
	Case json.RawMessage `json:"case"`
}

// workerMain serves requests from stdin until EOF. One response line per request:
// "OK <transcript>" or "PANIC <text>".
func workerMain() {
	in := bufio.NewReaderSize(os.Stdin, 1<<20)
	out := bufio.NewWriter(os.Stdout)
	defer out.Flush()
	for {
		line, err := in.ReadBytes('\n')
		if len(line) > 0 {
			resp := serveOne(line)
			out.WriteString(strings.ReplaceAll(resp, "\n", "\\n"))
			out.WriteByte('\n')
			out.Flush()
		}
		if err != nil {
			return
		}
	}
}

func serveOne(line []byte) (resp string) {
	defer func() {
		if p := recover(); p != nil {
			resp = fmt.Sprintf("PANIC %v | %s", p, strings.ReplaceAll(string(debug.Stack()), "\n", " | "))
			if len(resp) > 2000 {
				resp = resp[:2000]
			}
		}
	}()
	var req workerReq
	if err := json.Unmarshal(line, &req); err != nil {
		return "PANIC bad request: " + err.Error()
	}
	mk, ok := registry[req.Prop]
	if !ok {
		return "PANIC unknown property " + req.Prop
	}
	c := mk()
	if err := json.Unmarshal(req.Case, c); err != nil {
		return "PANIC bad case: " + err.Error()
	}
	tr, ok := c.(Transcripter)
	if !ok {
		return "PANIC case has no transcript"
	}
	return "OK " + tr.Transcript()
}

// workerProc is a child process of this test binary serving transcripts.
type workerProc struct {
	mu   sync.Mutex
	cmd  *exec.Cmd
	in   io.WriteCloser
	out  *bufio.Reader
	env  []string
	dead bool
	tail *tailBuffer
	dl   time.Duration
}

func (w *workerProc) deadline() time.Duration {
	if w.dl > 0 {
		return w.dl
	}
	return askDeadline
}

type tailBuffer struct {
	mu   sync.Mutex
	head []byte // the beginning of stderr: a fatal error announces itself first
	buf  []byte
}

// Head returns the first lines written (up to 20).
func (t *tailBuffer) Head() string {
	t.mu.Lock()
	defer t.mu.Unlock()
	ls := strings.Split(string(t.head), "\n")
	if len(ls) > 20 {
		ls = ls[:20]
	}
	return strings.Join(ls, " | ")
}

func (t *tailBuffer) Write(p []byte) (int, error) {
	t.mu.Lock()
	defer t.mu.Unlock()
	if len(t.head) < 4000 {
		t.head = append(t.head, p...)
	}
	t.buf = append(t.buf, p...)
	if len(t.buf) > 8000 {
		t.buf = t.buf[len(t.buf)-8000:]
	}
	return len(p), nil
}

func (t *tailBuffer) String() string {
	t.mu.Lock()
	defer t.mu.Unlock()
	return string(t.buf)
}

var (
	workersMu sync.Mutex
	workers   = map[string]*workerProc{}
)

// getWorker returns the (lazily started) worker for an environment.
func getWorker(env ...string) (*workerProc, error) {
	key := strings.Join(env, ";")
	workersMu.Lock()
	defer workersMu.Unlock()
	if w, ok := workers[key]; ok && !w.dead {
		return w, nil
	}
	w, err := startWorker(env)
	if err != nil {
		return nil, err
	}
	workers[key] = w
	return w, nil
}

func startWorker(env []string) (*workerProc, error) {
	exe, err := os.Executable()
	if err != nil {
		return nil, err
	}
	cmd := exec.Command(exe, "-test.run", "^TestWorker$", "-test.timeout", "0")
	cmd.Env = append(append(os.Environ(), "VERIF_WORKER=1"), env...)
	in, err := cmd.StdinPipe()
	if err != nil {
		return nil, err
	}
	outp, err := cmd.StdoutPipe()
	if err != nil {
		return nil, err
	}
	tb := &tailBuffer{}
	cmd.Stderr = tb
	if err := cmd.Start(); err != nil {
		return nil, err
	}
	return &workerProc{cmd: cmd, in: in, out: bufio.NewReaderSize(outp, 1<<20), env: env, tail: tb}, nil
}

// errWorkerTimeout: the worker did not answer within the deadline (it has been killed).
type errWorkerTimeout struct{ detail string }

func (e errWorkerTimeout) Error() string { return "worker did not answer in time: " + e.detail }

// askDeadline is the per-request deadline; generous, because the machine may be busy.
var askDeadline = 300 * time.Second

// errWorkerDied is returned when the worker process ended while serving a request: the request is the culprit.
type errWorkerDied struct{ detail string }

func (e errWorkerDied) Error() string { return "worker process died: " + e.detail }

// ask sends one case and returns its transcript.
func (w *workerProc) ask(prop string, c Case) (string, error) {
	w.mu.Lock()
	defer w.mu.Unlock()
	if w.dead {
		return "", errWorkerDied{"already dead"}
	}
	cb, err := json.Marshal(c)
	if err != nil {
		return "", err
	}
	rb, _ := json.Marshal(workerReq{Prop: prop, Case: cb})
	if _, err := w.in.Write(append(rb, '\n')); err != nil {
		w.dead = true
		w.cmd.Wait()
		return "", errWorkerDied{err.Error() + " | " + w.tail.String()}
	}
	type res struct {
		line string
		err  error
	}
	ch := make(chan res, 1)
	go func() {
		line, err := w.out.ReadString('\n')
		ch <- res{line, err}
	}()
	select {
	case r := <-ch:
		if r.err != nil {
			w.dead = true
			w.cmd.Wait()
			st := ""
			if w.cmd.ProcessState != nil {
				st = w.cmd.ProcessState.String()
			}
			return "", errWorkerDied{st + " | " + w.tail.Head()}
		}
		line := strings.TrimRight(r.line, "\n")
		if strings.HasPrefix(line, "OK ") {
			return line[3:], nil
		}
		return "", fmt.Errorf("worker: %s", line)
	case <-time.After(w.deadline()):
		w.dead = true
		w.cmd.Process.Kill()
		w.cmd.Wait()
		return "", errWorkerTimeout{fmt.Sprintf("no answer within %v", w.deadline())}
	}
}

// wireForm renders a locally computed transcript the way a worker's answer arrives (one line).
func wireForm(s string) string { return strings.ReplaceAll(s, "\n", "\\n") }

func (w *workerProc) stop() {
	w.mu.Lock()
	defer w.mu.Unlock()
	if !w.dead {
		w.in.Close()
		w.cmd.Wait()
		w.dead = true
	}
}

func stopAllWorkers() {
	workersMu.Lock()
	defer workersMu.Unlock()
	for _, w := range workers {
		w.stop()
	}
}

func lastLines(s string, n int) string {
	ls := strings.Split(strings.TrimRight(s, "\n"), "\n")
	if len(ls) > n {
		ls = ls[len(ls)-n:]
	}
	return strings.Join(ls, " | ")
}

// ---- transcripts of the shared case types

func dumpValue(v reflect.Value) string {
	b, err := json.Marshal(tv.Dump(v))
	if err != nil {
		return "dump-error:" + err.Error()
	}
	return string(b)
}

// Transcript of a decode case: the result of sonic alone under this process's configuration.
func (c *C01Case) Transcript() string {
	ty, err := tv.Build(c.T)
	if err != nil {
		return "harness:" + err.Error()
	}
	dst, err := c.newDest(ty)
	if err != nil {
		return "harness:" + err.Error()
	}
	e := c01Apis[c.Cfg].Unmarshal(c.Doc, dst.Interface())
	if e != nil {
		return "err"
	}
	return "ok " + dumpValue(dst.Elem())
}

// Transcript of an encode case.
func (c *C03Case) Transcript() string {
	_, v, err := c.Materialise()
	if err != nil {
		return "harness:" + err.Error()
	}
	var sb strings.Builder
	for _, x := range []interface{}{v.Interface(), v.Addr().Interface()} {
		b, e := sonic.ConfigStd.Marshal(x)
		if e != nil {
			sb.WriteString("err;")
		} else {
			sb.WriteString(string(b) + ";")
		}
	}
	return sb.String()
}

// Transcript of an option-mask encode case (C12's shape, used for the VM worker).
func (c *C12Case) Transcript() string {
	_, v, err := c.Materialise()
	if err != nil {
		return "harness:" + err.Error()
	}
	mask := c.Mask | optSortMapKeys
	var sb strings.Builder
	for _, x := range []interface{}{v.Interface(), v.Addr().Interface()} {
		ob, oe := encodeWithMask(x, mask)
		if oe != nil {
			sb.WriteString("err;")
		} else {
			sb.WriteString(string(ob) + ";")
		}
	}
	return sb.String()
}

func init() {
	register("INFO", func() Case { return &InfoCase{} })
}

// InfoCase reports the worker's configuration.
type InfoCase struct{}

func (*InfoCase) Run() (r stat.Result) { return }

func (*InfoCase) Transcript() string {
	return fmt.Sprintf("avx2=%v vm=%v", verifhook.HasAVX2(), verifhook.EncoderIsVM())
}

func encodeWithMask(x interface{}, mask uint64) ([]byte, error) {
	return encoder.Encode(x, encoder.Options(mask))
}
