package props

import (
	"encoding/json"
	"fmt"
	"math"
	"reflect"
	"strconv"
	"strings"

	"github.com/bytedance/sonic"
	"github.com/bytedance/sonic/ast"
	"pgregory.net/rapid"
	"verif/harness/gen"
	"verif/harness/ref"
	"verif/harness/stat"
)

// PathElem is one path step: a key or an index.
type PathElem struct {
	Key   *string `json:"k,omitempty"`
	Index *int    `json:"i,omitempty"`
}

// C14Case: a valid document, a path, search options and an entry point.
type C14Case struct {
	Doc     []byte       `json:"doc"`
	DocText string       `json:"doc_text,omitempty"`
	Path    []PathElem   `json:"path"`
	Warm    [][]PathElem `json:"warm,omitempty"`  // paths looked up earlier on the same root node
	Opts    int          `json:"opts"`            // bit0 ValidateJSON, bit1 CopyReturn, bit2 ConcurrentRead
	Entry   int          `json:"entry"`           // see c14EntryNames
	Views   int          `json:"views,omitempty"` // cross-kind accessors and secondary views: 0 none, 1 after the primary checks, 2 before them (node still lazy), 3 before them and reading copies of the children first

	warmDiff string
	locErr   string // error text of the entry point, if it returned one
}

func init() { register("C14", func() Case { return &C14Case{} }) }

var c14EntryNames = []string{"sonic.Get", "sonic.GetFromString", "sonic.GetCopyFromString", "sonic.GetWithOptions", "ast.NewSearcher", "NewRaw.GetByPath", "Get().chain(Get/Index)", "LoadAll.GetByPath", "NewRawConcurrentRead.chain"}

func drawC14(t *rapid.T) Case {
	c := &C14Case{}
	// Lone surrogate escapes may occur in values and keys (encoding/json reads them as U+FFFD); a key spelled
	// with one is not addressable by a Go string path, so paths never step through such a key (see drawC14Path),
	// but they do address its neighbours.
	c.Doc = gen.ValidDoc(t, gen.DocOpt{Str: gen.StrOpt{LoneSurr: rapid.IntRange(0, 3).Draw(t, "lonesurr") == 0}, Wide: true, MaxDepth: 4, Nested: true, CastStr: true})
	if !json.Valid(c.Doc) {
		c.Doc = []byte(`{"a":[1,{"b":null}]}`)
	}
	// one case in 150: thousands of sibling containers (every nesting budget is 4096: a counter that is not
	// given back per container runs out on a flat document)
	if rapid.IntRange(0, 149).Draw(t, "bulk") == 0 {
		c.Doc = drawC14Bulk(t)
	}
	c.Opts = rapid.IntRange(0, 7).Draw(t, "opts")
	c.Entry = rapid.IntRange(0, len(c14EntryNames)-1).Draw(t, "entry")
	c.Views = rapid.IntRange(0, 3).Draw(t, "views")
	root := ref.Parse(c.Doc)
	c.Path = drawC14Path(t, root)
	// earlier lookups on the same root node (entry points that keep one): they leave it partially loaded
	if c.Entry >= 5 {
		for k := rapid.IntRange(0, 3).Draw(t, "nwarm"); k > 0; k-- {
			c.Warm = append(c.Warm, drawC14Path(t, root))
		}
	}
	if isPrintableUTF8(c.Doc) {
		c.DocText = string(c.Doc)
	}
	return c
}

// drawC14Bulk draws a flat document with 4000..9000 small containers as siblings, optionally below a few levels.
func drawC14Bulk(t *rapid.T) []byte {
	n := []int{4000, 4095, 4096, 4097, 4200, 5000, 9000}[rapid.IntRange(0, 6).Draw(t, "bulkn")]
	kind := rapid.IntRange(0, 3).Draw(t, "bulkkind") // 0 arrays, 1 objects, 2 alternating, 3 one level deeper
	asObj := rapid.Bool().Draw(t, "bulkroot")
	var b strings.Builder
	pre := rapid.IntRange(0, 3).Draw(t, "bulkpre")
	for i := 0; i < pre; i++ {
		b.WriteString(`{"a":[`)
	}
	if asObj {
		b.WriteByte('{')
	} else {
		b.WriteByte('[')
	}
	for i := 0; i < n; i++ {
		if i > 0 {
			b.WriteByte(',')
		}
		if asObj {
			fmt.Fprintf(&b, `"k%d":`, i)
		}
		switch {
		case kind == 0 || (kind == 2 && i%2 == 0):
			b.WriteString(`[]`)
		case kind == 1 || kind == 2:
			b.WriteString(`{}`)
		default:
			b.WriteString(`[{"x":[1]}]`)
		}
	}
	if asObj {
		b.WriteByte('}')
	} else {
		b.WriteByte(']')
	}
	for i := 0; i < pre; i++ {
		b.WriteString(`]}`)
	}
	return []byte(b.String())
}

// drawC14Path draws a path into the document: mostly existing, sometimes missing, out of range or into a scalar.
func drawC14Path(t *rapid.T, root *ref.Node) []PathElem {
	var path []PathElem
	cur := root
	depth := 4 - rapid.IntRange(0, 4).Draw(t, "pathlen") // biased to long paths; stops early at scalars
	for d := 0; d < depth && cur != nil; d++ {
		miss := rapid.IntRange(0, 9).Draw(t, "miss") == 0
		switch cur.Kind {
		case ref.TObjOpen:
			if len(cur.Keys) == 0 || miss {
				k := []string{"nope", "", "A", "a", "missing\"key"}[rapid.IntRange(0, 4).Draw(t, "misskey")]
				path = append(path, PathElem{Key: &k})
				cur = nil
				break
			}
			i := rapid.IntRange(0, len(cur.Keys)-1).Draw(t, "member")
			// skip keys that decode with a replacement character (lone surrogate spellings): take the next plain one
			for n := 0; n < len(cur.Keys) && strings.ContainsRune(cur.Keys[i].Str, 0xFFFD); n++ {
				i = (i + 1) % len(cur.Keys)
			}
			if strings.ContainsRune(cur.Keys[i].Str, 0xFFFD) {
				d = depth
				break
			}
			k := cur.Keys[i].Str
			path = append(path, PathElem{Key: &k})
			cur = cur.Elems[firstIndexOfKey(cur, k)]
		case ref.TArrOpen:
			if len(cur.Elems) == 0 || miss {
				i := len(cur.Elems) + rapid.IntRange(0, 3).Draw(t, "beyond")*1000
				path = append(path, PathElem{Index: &i})
				cur = nil
				break
			}
			i := rapid.IntRange(0, len(cur.Elems)-1).Draw(t, "elem")
			path = append(path, PathElem{Index: &i})
			cur = cur.Elems[i]
		default:
			// wrong kind: step into a scalar (rarely; usually the path just ends at the scalar)
			if rapid.IntRange(0, 5).Draw(t, "intoscalar") != 0 {
				d = depth
				break
			}
			if rapid.Bool().Draw(t, "scalarkey") {
				k := "a"
				path = append(path, PathElem{Key: &k})
			} else {
				i := 0
				path = append(path, PathElem{Index: &i})
			}
			cur = nil
		}
	}
	return path
}

func firstIndexOfKey(n *ref.Node, key string) int {
	for i, k := range n.Keys {
		if k.Str == key {
			return i
		}
	}
	return -1
}

// follow resolves the path in the reference tree; nil = does not exist.
func (c *C14Case) follow(root *ref.Node) *ref.Node { return followPath(root, c.Path) }

func followPath(root *ref.Node, path []PathElem) *ref.Node {
	cur := root
	for _, pe := range path {
		if cur == nil {
			return nil
		}
		switch {
		case pe.Key != nil:
			if cur.Kind != ref.TObjOpen {
				return nil
			}
			i := firstIndexOfKey(cur, *pe.Key)
			if i < 0 {
				return nil
			}
			cur = cur.Elems[i]
		default:
			if cur.Kind != ref.TArrOpen || *pe.Index < 0 || *pe.Index >= len(cur.Elems) {
				return nil
			}
			cur = cur.Elems[*pe.Index]
		}
	}
	return cur
}

func (c *C14Case) pathArgs() []interface{} { return pathArgsOf(c.Path) }

func pathArgsOf(path []PathElem) []interface{} {
	out := make([]interface{}, len(path))
	for i, pe := range path {
		if pe.Key != nil {
			out[i] = *pe.Key
		} else {
			out[i] = *pe.Index
		}
	}
	return out
}

func (c *C14Case) options() ast.SearchOptions {
	return ast.SearchOptions{ValidateJSON: c.Opts&1 != 0, CopyReturn: c.Opts&2 != 0, ConcurrentRead: c.Opts&4 != 0}
}

// locate runs the entry point; ok=false means "reported as not existing / error".
func (c *C14Case) locate() (n ast.Node, ok bool) {
	s := string(c.Doc)
	args := c.pathArgs()
	var err error
	switch c.Entry {
	case 0:
		n, err = sonic.Get(c.Doc, args...)
	case 1:
		n, err = sonic.GetFromString(s, args...)
	case 2:
		n, err = sonic.GetCopyFromString(s, args...)
	case 3:
		n, err = sonic.GetWithOptions(c.Doc, c.options(), args...)
	case 4:
		sr := ast.NewSearcher(s)
		sr.SearchOptions = c.options()
		n, err = sr.GetByPath(args...)
	case 5:
		root := ast.NewRaw(s)
		c.warm(&root)
		p := root.GetByPath(args...)
		if p == nil || !p.Exists() || p.Check() != nil {
			return n, false
		}
		return *p, true
	case 6, 8:
		var root ast.Node
		if c.Entry == 6 {
			root, err = sonic.Get(c.Doc)
			if err != nil {
				return n, false
			}
		} else {
			root = ast.NewRawConcurrentRead(s)
		}
		c.warm(&root)
		cur := &root
		for _, pe := range c.Path {
			if pe.Key != nil {
				cur = cur.Get(*pe.Key)
			} else {
				// Index on an object addresses the i-th member; the reference only resolves indexes on arrays
				if cur.TypeSafe() != ast.V_ARRAY {
					return n, false
				}
				cur = cur.Index(*pe.Index)
			}
			if cur == nil || !cur.Exists() || cur.Check() != nil {
				return n, false
			}
		}
		return *cur, true
	case 7:
		root := ast.NewRaw(s)
		if err := root.LoadAll(); err != nil {
			return n, false
		}
		c.warm(&root)
		p := root.GetByPath(args...)
		if p == nil || !p.Exists() || p.Check() != nil {
			return n, false
		}
		return *p, true
	}
	if err != nil || !n.Exists() || n.Check() != nil {
		if err != nil {
			c.locErr = err.Error()
		}
		return n, false
	}
	return n, true
}

// warm performs the earlier lookups and remembers the first one whose outcome contradicts the reference.
func (c *C14Case) warm(root *ast.Node) {
	ref0 := ref.Parse(c.Doc)
	for i, w := range c.Warm {
		p := root.GetByPath(pathArgsOf(w)...)
		found := p != nil && p.Exists() && p.Check() == nil
		want := followPath(ref0, w)
		switch {
		case found != (want != nil):
			c.warmDiff = fmt.Sprintf("earlier lookup #%d: found=%v, reference found=%v", i, found, want != nil)
		case found:
			raw, err := p.Raw()
			if err != nil || ref.TokensEqual(c.Doc[want.Beg:want.End], []byte(raw), false) != "" {
				c.warmDiff = fmt.Sprintf("earlier lookup #%d: Raw %s (err %v), reference %s", i, clipS(raw), err, clipB(c.Doc[want.Beg:want.End]))
			}
		}
		if c.warmDiff != "" {
			return
		}
	}
}

type c14Event struct {
	Kind string
	S    string
	I    int64
	F    uint64
}

type c14Visitor struct{ ev []c14Event }

func (v *c14Visitor) OnNull() error { v.ev = append(v.ev, c14Event{Kind: "null"}); return nil }
func (v *c14Visitor) OnBool(b bool) error {
	v.ev = append(v.ev, c14Event{Kind: "bool", S: strconv.FormatBool(b)})
	return nil
}
func (v *c14Visitor) OnString(s string) error {
	v.ev = append(v.ev, c14Event{Kind: "string", S: s})
	return nil
}
func (v *c14Visitor) OnInt64(i int64, n json.Number) error {
	v.ev = append(v.ev, c14Event{Kind: "int64", I: i, S: string(n)})
	return nil
}
func (v *c14Visitor) OnFloat64(f float64, n json.Number) error {
	v.ev = append(v.ev, c14Event{Kind: "float64", F: math.Float64bits(f), S: string(n)})
	return nil
}
func (v *c14Visitor) OnObjectBegin(int) error { v.ev = append(v.ev, c14Event{Kind: "{"}); return nil }
func (v *c14Visitor) OnObjectKey(k string) error {
	v.ev = append(v.ev, c14Event{Kind: "key", S: k})
	return nil
}
func (v *c14Visitor) OnObjectEnd() error     { v.ev = append(v.ev, c14Event{Kind: "}"}); return nil }
func (v *c14Visitor) OnArrayBegin(int) error { v.ev = append(v.ev, c14Event{Kind: "["}); return nil }
func (v *c14Visitor) OnArrayEnd() error      { v.ev = append(v.ev, c14Event{Kind: "]"}); return nil }

// refEvents derives the expected Preorder event stream; ok=false if a number overflows float64.
func refEvents(doc []byte, n *ref.Node, out *[]c14Event) bool {
	switch n.Kind {
	case ref.TNull:
		*out = append(*out, c14Event{Kind: "null"})
	case ref.TTrue, ref.TFalse:
		*out = append(*out, c14Event{Kind: "bool", S: strconv.FormatBool(n.Kind == ref.TTrue)})
	case ref.TString:
		s, _ := ref.Unquote(doc[n.Beg+1 : n.End-1])
		*out = append(*out, c14Event{Kind: "string", S: string(s)})
	case ref.TNumber:
		lit := string(doc[n.Beg:n.End])
		if i, err := strconv.ParseInt(lit, 10, 64); err == nil {
			*out = append(*out, c14Event{Kind: "int64", I: i, S: lit})
		} else {
			f, err := strconv.ParseFloat(lit, 64)
			if err != nil {
				return false
			}
			*out = append(*out, c14Event{Kind: "float64", F: math.Float64bits(f), S: lit})
		}
	case ref.TObjOpen:
		*out = append(*out, c14Event{Kind: "{"})
		for i, k := range n.Keys {
			*out = append(*out, c14Event{Kind: "key", S: k.Str})
			if !refEvents(doc, n.Elems[i], out) {
				return false
			}
		}
		*out = append(*out, c14Event{Kind: "}"})
	case ref.TArrOpen:
		*out = append(*out, c14Event{Kind: "["})
		for _, e := range n.Elems {
			if !refEvents(doc, e, out) {
				return false
			}
		}
		*out = append(*out, c14Event{Kind: "]"})
	}
	return true
}

// passesWithViews re-runs the case with another order of the secondary views.
func (c *C14Case) passesWithViews(v int) bool {
	d := *c
	d.Views = v
	r := d.Run()
	return r.Err == nil && len(r.Known) == 0
}

func (c *C14Case) Run() (res stat.Result) {
	root := ref.Parse(c.Doc)
	if root == nil {
		res.Err = fmt.Errorf("harness: document does not parse")
		return
	}
	want := c.follow(root)
	c.warmDiff, c.locErr = "", ""
	got, ok := c.locate()
	what := fmt.Sprintf("%s(%s, path %s, opts %d)", c14EntryNames[c.Entry], clipB(c.Doc), c.pathString(), c.Opts)
	res.Sub++
	fail := func(f string, a ...interface{}) stat.Result {
		msg := fmt.Sprintf(f, a...)
		if id := c.classify(root, want, msg); id != "" {
			res.Known = append(res.Known, id)
			return res
		}
		res.Err = fmt.Errorf("%s: %s", what, msg)
		return res
	}
	c.classes(&res, root, want)
	if len(c.Warm) > 0 {
		res.Classes = append(res.Classes, "after-earlier-lookups")
	}
	if c.warmDiff != "" {
		return fail("%s", c.warmDiff)
	}
	if want == nil {
		if ok {
			raw, _ := got.Raw()
			return fail("path does not exist, but a node was returned: %s", clipS(raw))
		}
		return res
	}
	if !ok {
		return fail("path exists (value %s) but was reported as missing/error", clipB(c.Doc[want.Beg:want.End]))
	}
	span := c.Doc[want.Beg:want.End]
	n := &got
	if c.Views != 0 {
		res.Classes = append(res.Classes, fmt.Sprintf("views:%d:kind%d", c.Views, want.Kind))
		if want.Kind == ref.TString {
			if s, _ := ref.Unquote(span[1 : len(span)-1]); castOfText(string(s), true).numOK || castOfText(string(s), true).bOK {
				res.Classes = append(res.Classes, "views:string-that-casts")
			}
		}
	}
	if c.Views >= 2 {
		res.Sub++
		if d := c14CrossViews(c.Doc, n, want, c.Views == 3); d != "" {
			if c.Views == 3 && c.passesWithViews(2) {
				// the same case read in the other order holds: by-value copies of a partially parsed child were
				// read before the original was loaded (listed finding)
				res.Known = append(res.Known, "C15-lazy-node-copy-shares-parser")
				return res
			}
			return fail("%s", d)
		}
	}

	// Raw describes the span
	res.Sub++
	raw, err := n.Raw()
	if err != nil {
		return fail("Raw() error %v", err)
	}
	if d := ref.TokensEqual(span, []byte(raw), false); d != "" {
		return fail("Raw() = %s does not describe the addressed value %s: %s", clipS(raw), clipB(span), d)
	}

	// Interface / InterfaceUseNumber
	var jv interface{}
	stdErr := json.Unmarshal(span, &jv)
	if stdErr == nil {
		res.Sub += 2
		iv, err := n.Interface()
		if err != nil {
			return fail("Interface() error %v for %s", err, clipB(span))
		}
		if d := deepEq(reflect.ValueOf(&jv).Elem(), reflect.ValueOf(&iv).Elem(), "", 0); d != "" {
			return fail("Interface() differs from encoding/json at %s (value %s)", d, clipB(span))
		}
		var jn interface{}
		dec := json.NewDecoder(strings.NewReader(string(span)))
		dec.UseNumber()
		dec.Decode(&jn)
		in, err := n.InterfaceUseNumber()
		if err != nil {
			return fail("InterfaceUseNumber() error %v", err)
		}
		if d := deepEq(reflect.ValueOf(&jn).Elem(), reflect.ValueOf(&in).Elem(), "", 0); d != "" {
			return fail("InterfaceUseNumber() differs from encoding/json at %s (value %s)", d, clipB(span))
		}
	}

	// typed accessors
	res.Sub++
	switch want.Kind {
	case ref.TString:
		s, _ := ref.Unquote(span[1 : len(span)-1])
		if g, err := n.String(); err != nil || g != string(s) {
			return fail("String() = %q, %v; want %q", g, err, s)
		}
		if g, err := n.StrictString(); err != nil || g != string(s) {
			return fail("StrictString() = %q, %v; want %q", g, err, s)
		}
	case ref.TTrue, ref.TFalse:
		if g, err := n.Bool(); err != nil || g != (want.Kind == ref.TTrue) {
			return fail("Bool() = %v, %v", g, err)
		}
	case ref.TNull:
		if n.TypeSafe() != ast.V_NULL {
			return fail("Type() = %d for null", n.TypeSafe())
		}
	case ref.TNumber:
		lit := string(span)
		if g, err := n.Number(); err != nil || string(g) != lit {
			return fail("Number() = %q, %v; want %q", g, err, lit)
		}
		if f, e := strconv.ParseFloat(lit, 64); e == nil {
			if g, err := n.Float64(); err != nil || math.Float64bits(g) != math.Float64bits(f) {
				return fail("Float64() = %v, %v; want %v", g, err, f)
			}
		}
		wi, e := strconv.ParseInt(lit, 10, 64)
		gi, err := n.StrictInt64()
		if (e == nil) != (err == nil) || (e == nil && wi != gi) {
			return fail("StrictInt64() = %d, %v; ParseInt gives %d, %v", gi, err, wi, e)
		}
	case ref.TArrOpen:
		if stdErr == nil {
			arr, err := n.Array()
			if err != nil || len(arr) != len(want.Elems) {
				return fail("Array() len %d, %v; want %d", len(arr), err, len(want.Elems))
			}
			if d := deepEq(reflect.ValueOf(jv), reflect.ValueOf(arr), "", 0); d != "" {
				return fail("Array() differs from encoding/json at %s", d)
			}
		}
		nodes, err := n.ArrayUseNode()
		if err != nil || len(nodes) != len(want.Elems) {
			return fail("ArrayUseNode() len %d, %v; want %d", len(nodes), err, len(want.Elems))
		}
		for i := range nodes {
			r, err := nodes[i].Raw()
			if err != nil || ref.TokensEqual(c.Doc[want.Elems[i].Beg:want.Elems[i].End], []byte(r), false) != "" {
				return fail("ArrayUseNode()[%d].Raw() = %s, %v; want %s", i, clipS(r), err, clipB(c.Doc[want.Elems[i].Beg:want.Elems[i].End]))
			}
		}
		it, err := n.Values()
		if err != nil {
			return fail("Values() error %v", err)
		}
		var v ast.Node
		i := 0
		for it.Next(&v) {
			if i >= len(want.Elems) {
				return fail("Values() yields more than %d elements", len(want.Elems))
			}
			r, err := v.Raw()
			if err != nil || ref.TokensEqual(c.Doc[want.Elems[i].Beg:want.Elems[i].End], []byte(r), false) != "" {
				return fail("Values() element %d = %s, %v", i, clipS(r), err)
			}
			i++
		}
		if i != len(want.Elems) {
			return fail("Values() yields %d elements, want %d", i, len(want.Elems))
		}
		if l, err := n.Len(); err != nil || l != len(want.Elems) {
			return fail("Len() = %d, %v after full iteration; want %d", l, err, len(want.Elems))
		}
	case ref.TObjOpen:
		if stdErr == nil {
			m, err := n.Map()
			if err != nil {
				return fail("Map() error %v", err)
			}
			if d := deepEq(reflect.ValueOf(jv), reflect.ValueOf(m), "", 0); d != "" {
				return fail("Map() differs from encoding/json at %s", d)
			}
		}
		it, err := n.Properties()
		if err != nil {
			return fail("Properties() error %v", err)
		}
		var p ast.Pair
		i := 0
		for it.Next(&p) {
			if i >= len(want.Keys) {
				return fail("Properties() yields more than %d members", len(want.Keys))
			}
			if p.Key != want.Keys[i].Str {
				return fail("Properties() member %d has key %q, want %q", i, p.Key, want.Keys[i].Str)
			}
			r, err := p.Value.Raw()
			if err != nil || ref.TokensEqual(c.Doc[want.Elems[i].Beg:want.Elems[i].End], []byte(r), false) != "" {
				return fail("Properties() member %d value = %s, %v", i, clipS(r), err)
			}
			i++
		}
		if i != len(want.Keys) {
			return fail("Properties() yields %d members, want %d", i, len(want.Keys))
		}
		j := 0
		ferr := n.ForEach(func(path ast.Sequence, node *ast.Node) bool {
			if j < len(want.Keys) && (path.Key == nil || *path.Key != want.Keys[j].Str || path.Index != j) {
				j = -1000000
				return false
			}
			j++
			return true
		})
		if ferr != nil || j != len(want.Keys) {
			return fail("ForEach() visited %d members (err %v), want %d in source order", j, ferr, len(want.Keys))
		}
		// every member is reachable by key: first occurrence wins
		for _, k := range want.Keys {
			sub := n.Get(k.Str)
			fi := firstIndexOfKey(want, k.Str)
			if sub == nil || !sub.Exists() {
				return fail("Get(%q) on the located object: missing", k.Str)
			}
			r, err := sub.Raw()
			if err != nil || ref.TokensEqual(c.Doc[want.Elems[fi].Beg:want.Elems[fi].End], []byte(r), false) != "" {
				return fail("Get(%q) on the located object = %s, %v; want first occurrence %s", k.Str, clipS(r), err, clipB(c.Doc[want.Elems[fi].Beg:want.Elems[fi].End]))
			}
		}
	}

	if c.Views == 1 {
		res.Sub++
		if d := c14CrossViews(c.Doc, n, want, false); d != "" {
			return fail("%s", d)
		}
	}

	// Preorder over the span
	var wantEv []c14Event
	if refEvents(c.Doc, want, &wantEv) {
		res.Sub++
		vis := &c14Visitor{}
		if err := ast.Preorder(string(span), vis, nil); err != nil {
			return fail("Preorder(%s) error %v", clipB(span), err)
		}
		if len(vis.ev) != len(wantEv) {
			return fail("Preorder(%s): %d events, want %d", clipB(span), len(vis.ev), len(wantEv))
		}
		for i := range wantEv {
			if vis.ev[i] != wantEv[i] {
				return fail("Preorder(%s): event %d = %+v, want %+v", clipB(span), i, vis.ev[i], wantEv[i])
			}
		}
	}
	return res
}

func (c *C14Case) pathString() string {
	var sb strings.Builder
	for _, pe := range c.Path {
		if pe.Key != nil {
			fmt.Fprintf(&sb, "/%q", *pe.Key)
		} else {
			fmt.Fprintf(&sb, "/%d", *pe.Index)
		}
	}
	return sb.String()
}

func (c *C14Case) classes(res *stat.Result, root, want *ref.Node) {
	res.NonTrivial = len(c.Path) >= 1 && ref.MaxDepth(c.Doc) >= 2
	res.Classes = append(res.Classes, "entry:"+c14EntryNames[c.Entry], fmt.Sprintf("pathlen=%d", len(c.Path)))
	if want == nil {
		res.Classes = append(res.Classes, "missing")
	} else {
		res.Classes = append(res.Classes, "found")
	}
	dup, wide := false, false
	containers := 0
	var walk func(n *ref.Node)
	walk = func(n *ref.Node) {
		if n.Kind == ref.TObjOpen || n.Kind == ref.TArrOpen {
			containers++
		}
		if n.Kind == ref.TObjOpen {
			seen := map[string]bool{}
			for _, k := range n.Keys {
				if seen[k.Str] {
					dup = true
				}
				seen[k.Str] = true
			}
			if len(n.Keys) > 16 {
				wide = true
			}
		}
		for _, e := range n.Elems {
			walk(e)
		}
	}
	walk(root)
	if containers > 4096 {
		res.Classes = append(res.Classes, "over-4096-containers")
		if want != nil {
			containers = 0
			walk(want)
			if containers > 4096 {
				res.Classes = append(res.Classes, "over-4096-containers-in-located-value")
			}
		}
	}
	if dup {
		res.Classes = append(res.Classes, "dup-key")
	}
	if wide {
		res.Classes = append(res.Classes, "wide>16")
	}
}

// classify maps a failure to a listed known finding.
func (c *C14Case) classify(root, want *ref.Node, msg string) string {
	// C14-native-search-lone-surrogate-key: the native path search (sonic.Get*, Searcher.GetByPath) unescapes the
	// keys it passes while comparing them and gives up with "invalid unicode escape" on a lone surrogate escape
	if c.Entry <= 4 && want != nil && strings.Contains(msg, "reported as missing/error") && strings.Contains(c.locErr, "invalid unicode escape") &&
		hasLoneSurrogateKey(root) && knownListed("C14-native-search-lone-surrogate-key") {
		return "C14-native-search-lone-surrogate-key"
	}
	return ""
}

// hasLoneSurrogateKey: some object key of the document decodes with a replacement character that its spelling does not contain.
func hasLoneSurrogateKey(n *ref.Node) bool {
	if n == nil {
		return false
	}
	for _, k := range n.Keys {
		if strings.ContainsRune(k.Str, 0xFFFD) {
			return true
		}
	}
	for _, e := range n.Elems {
		if hasLoneSurrogateKey(e) {
			return true
		}
	}
	return false
}

var _ = gen.Space
