package props

import (
	"math"
	"reflect"
)

// copyValue makes a deep copy of v (same type), following pointers, slices,
// maps and interfaces. Unexported fields are copied shallowly with the struct.
func copyValue(v reflect.Value) reflect.Value {
	out := reflect.New(v.Type()).Elem()
	out.Set(v)
	deepCopyInto(out, v, 0)
	return out
}

func deepCopyInto(dst, src reflect.Value, depth int) {
	if depth > 100 {
		return
	}
	switch src.Kind() {
	case reflect.Ptr:
		if src.IsNil() || !dst.CanSet() {
			return
		}
		p := reflect.New(src.Type().Elem())
		p.Elem().Set(src.Elem())
		deepCopyInto(p.Elem(), src.Elem(), depth+1)
		dst.Set(p)
	case reflect.Interface:
		if src.IsNil() || !dst.CanSet() {
			return
		}
		e := reflect.New(src.Elem().Type()).Elem()
		e.Set(src.Elem())
		deepCopyInto(e, src.Elem(), depth+1)
		dst.Set(e)
	case reflect.Slice:
		if src.IsNil() || !dst.CanSet() {
			return
		}
		s := reflect.MakeSlice(src.Type(), src.Len(), src.Len())
		reflect.Copy(s, src)
		for i := 0; i < src.Len(); i++ {
			deepCopyInto(s.Index(i), src.Index(i), depth+1)
		}
		dst.Set(s)
	case reflect.Array:
		for i := 0; i < src.Len(); i++ {
			deepCopyInto(dst.Index(i), src.Index(i), depth+1)
		}
	case reflect.Map:
		if src.IsNil() || !dst.CanSet() {
			return
		}
		m := reflect.MakeMapWithSize(src.Type(), src.Len())
		it := src.MapRange()
		for it.Next() {
			e := reflect.New(src.Type().Elem()).Elem()
			e.Set(it.Value())
			deepCopyInto(e, it.Value(), depth+1)
			m.SetMapIndex(it.Key(), e)
		}
		dst.Set(m)
	case reflect.Struct:
		for i := 0; i < src.NumField(); i++ {
			deepCopyInto(dst.Field(i), src.Field(i), depth+1)
		}
	}
}

// mutateValue walks an addressable value and calls f on every settable leaf
// or container; f receives the struct field (zero StructField outside structs)
// and may modify the value in place. Map elements are copied out, visited and
// stored back.
func mutateValue(v reflect.Value, sf reflect.StructField, f func(v reflect.Value, sf reflect.StructField), depth int) {
	if depth > 100 {
		return
	}
	f(v, sf)
	switch v.Kind() {
	case reflect.Ptr, reflect.Interface:
		if v.IsNil() {
			return
		}
		if v.Kind() == reflect.Interface {
			e := reflect.New(v.Elem().Type()).Elem()
			e.Set(v.Elem())
			mutateValue(e, reflect.StructField{}, f, depth+1)
			if v.CanSet() {
				v.Set(e)
			}
			return
		}
		mutateValue(v.Elem(), reflect.StructField{}, f, depth+1)
	case reflect.Slice, reflect.Array:
		for i := 0; i < v.Len(); i++ {
			mutateValue(v.Index(i), reflect.StructField{}, f, depth+1)
		}
	case reflect.Map:
		for _, k := range v.MapKeys() {
			e := reflect.New(v.Type().Elem()).Elem()
			e.Set(v.MapIndex(k))
			mutateValue(e, reflect.StructField{}, f, depth+1)
			v.SetMapIndex(k, e)
		}
	case reflect.Struct:
		for i := 0; i < v.NumField(); i++ {
			mutateValue(v.Field(i), v.Type().Field(i), f, depth+1)
		}
	}
}

// flipNegZeroOmitempty replaces -0.0 by +0.0 in float fields tagged omitempty.
func flipNegZeroOmitempty(v reflect.Value) (n int) {
	mutateValue(v, reflect.StructField{}, func(x reflect.Value, sf reflect.StructField) {
		if (x.Kind() == reflect.Float32 || x.Kind() == reflect.Float64) && x.CanSet() && containsOpt(string(sf.Tag), "omitempty") {
			if x.Float() == 0 && math.Signbit(x.Float()) {
				x.SetFloat(0)
				n++
			}
		}
	}, 0)
	return
}
