package props

import (
	"bytes"
	"fmt"
	"math"
	"reflect"
	"strings"

	"github.com/bytedance/sonic/encoder"
	"github.com/bytedance/sonic/verifhook"
	"pgregory.net/rapid"
	"verif/harness/gen"
	"verif/harness/ref"
	"verif/harness/stat"
)

// C12Case: one value encoded by the JIT back end and by the interpreting (VM)
// back end under the same option mask.
type C12Case struct {
	TypedValue
	Mask        uint64 `json:"mask"`
	Unsupported int    `json:"unsupported,omitempty"`
	Unrep       int    `json:"unrep,omitempty"`
	Cross       bool   `json:"cross,omitempty"` // also ask a worker process started with SONIC_ENCODER_USE_VM=1
	IntoK       int    `json:"into_k,omitempty"` // k>0: also EncodeInto a caller buffer of capacity len(output)-(k-1) on both back ends
}

func init() { register("C12", func() Case { return &C12Case{} }) }

func drawC12(t *rapid.T) Case {
	c := &C12Case{}
	c.Mask = uint64(rapid.IntRange(0, 511).Draw(t, "mask"))
	to := gen.TypeOpt{Flav: gen.FlavEncode, Fresh: rapid.Bool().Draw(t, "fresh"), MaxDepth: 3}
	if thorough() {
		to.MaxDepth = rapid.IntRange(2, 5).Draw(t, "maxdepth")
		to.MaxFields = rapid.IntRange(3, 12).Draw(t, "maxfields")
	}
	vo := gen.ValOpt{InvalidUTF8: true, BadNumbers: true, NaN: rapid.IntRange(0, 3).Draw(t, "nan") == 0, Long: thorough()}
	c.TypedValue, _, _ = drawTypedValue(t, to, vo)
	if c.Mask&optNoQuoteTextMarshaler != 0 && specHasCat(c.T, unquotedText) {
		// output is not JSON then (documented caller error) and cannot be compared modulo map
		// order: force sorted keys so that the byte comparison is meaningful
		c.Mask |= optSortMapKeys
	}
	c.Cross = rapid.IntRange(0, 29).Draw(t, "cross") == 0
	if rapid.Bool().Draw(t, "into") {
		c.IntoK = rapid.IntRange(1, 14).Draw(t, "intok")
	}
	switch rapid.IntRange(0, 11).Draw(t, "extra") {
	case 0:
		c.Unsupported = rapid.IntRange(1, 8).Draw(t, "unsupkind")
	case 1:
		c.Unrep = rapid.IntRange(1, 14).Draw(t, "unrepkind")
	}
	return c
}

var c12WorkerChecked bool

func (c *C12Case) Run() (res stat.Result) {
	defer verifhook.SetEncoderVM(false)
	ty, v, err := c.Materialise()
	if err != nil {
		res.Err = fmt.Errorf("harness: %v", err)
		return
	}
	res.Programs = 2 * firstUse(ty)
	var vals []interface{}
	switch {
	case c.Unsupported != 0:
		vals = []interface{}{wrapUnsupported(c.Unsupported, v.Interface())}
	case c.Unrep != 0:
		u, _, _, _ := (&C04Case{Mask: c.Mask, Unrep: c.Unrep}).unrepValue()
		vals = []interface{}{u, []interface{}{v.Interface(), u}, map[string]interface{}{"k": u}}
	default:
		vals = []interface{}{v.Interface(), v.Addr().Interface(), []interface{}{v.Interface()}}
	}
	opts := encoder.Options(c.Mask)
	type outcome struct {
		out []byte
		err error
	}
	run := func(vm bool, opts encoder.Options) []outcome {
		verifhook.SetEncoderVM(vm)
		if verifhook.EncoderIsVM() != vm {
			panic("hook did not switch the encoder back end")
		}
		os := make([]outcome, len(vals))
		for i, x := range vals {
			b, e := encoder.Encode(x, opts)
			os[i] = outcome{append([]byte(nil), b...), e}
		}
		return os
	}
	jit := run(false, opts)
	vm := run(true, opts)
	var jitSorted, vmSorted []outcome
	numOrStr := false
	for i := range vals {
		res.Sub++
		a, b := jit[i], vm[i]
		if (a.err == nil) != (b.err == nil) {
			res.Err = fmt.Errorf("Encode(#%d of %s, mask %#x): JIT err=%v, VM err=%v (JIT out %s, VM out %s)", i, ty, c.Mask, a.err, b.err, clipB(a.out), clipB(b.out))
			return
		}
		if a.err != nil {
			res.Classes = append(res.Classes, "both-error")
			continue
		}
		if !bytes.Equal(a.out, b.out) && c.Mask&optSortMapKeys == 0 {
			// without SortMapKeys the member order of objects made from maps is Go's map
			// iteration order, which differs between any two runs: compare modulo member order,
			// but only when the only difference is white-space-free reordering
			ca, oka := ref.SortMembers(a.out)
			cb, okb := ref.SortMembers(b.out)
			if oka && okb && bytes.Equal(ca, cb) && len(a.out) == len(b.out) {
				res.Classes = append(res.Classes, "map-order-differs")
				continue
			}
			if !oka && !okb && c.Mask&(optNoQuoteTextMarshaler|optNoValidateJSONMarshaler) != 0 {
				// NoQuoteTextMarshaler with a marshaler whose text is not a literal, or NoValidateJSONMarshaler
				// with a marshaler returning text that is not JSON (documented caller errors): the output
				// is not JSON and cannot be compared modulo map order, so compare the two back ends again
				// with sorted keys, byte for byte
				if jitSorted == nil {
					jitSorted = run(false, opts|encoder.SortMapKeys)
					vmSorted = run(true, opts|encoder.SortMapKeys)
				}
				if (jitSorted[i].err == nil) == (vmSorted[i].err == nil) && bytes.Equal(jitSorted[i].out, vmSorted[i].out) {
					res.Classes = append(res.Classes, "noquote-unsorted-recheck")
					continue
				}
			}
		}
		if !bytes.Equal(a.out, b.out) {
			if id := c12Classify(c, v, a.out, b.out); id != "" {
				res.Known = append(res.Known, id)
				continue
			}
			res.Err = fmt.Errorf("Encode(#%d of %s, mask %#x) differs:\n JIT: %s\n  VM: %s", i, ty, c.Mask, clipB(a.out), clipB(b.out))
			return
		}
		for _, ch := range a.out {
			if ch == '"' || ch >= '0' && ch <= '9' {
				numOrStr = true
			}
		}
		if c.IntoK > 0 {
			// the same value into a caller buffer whose capacity is the output length minus 0..13: the back
			// ends grow the buffer at different places (the VM appends, the JIT checks space per opcode)
			capN := len(a.out) - (c.IntoK - 1)
			if capN < 0 {
				capN = 0
			}
			res.Sub++
			res.Classes = append(res.Classes, "into-near-output-length")
			for _, vmOn := range []bool{false, true} {
				verifhook.SetEncoderVM(vmOn)
				buf := make([]byte, 0, capN)
				e := encoder.EncodeInto(&buf, vals[i], opts)
				verifhook.SetEncoderVM(false)
				wantOut := a.out
				if vmOn {
					wantOut = b.out
				}
				if e != nil || len(buf) != len(wantOut) || (c.Mask&optSortMapKeys != 0 && !bytes.Equal(buf, wantOut)) {
					res.Err = fmt.Errorf("EncodeInto(#%d of %s, mask %#x, cap %d, vm=%v) = %s, %v; Encode gives %s", i, ty, c.Mask, capN, vmOn, clipB(buf), e, clipB(wantOut))
					return
				}
			}
		}
	}
	if c.Cross && c.Unsupported == 0 && c.Unrep == 0 {
		// the hook must select exactly what the environment variable selects: compare the in-process
		// VM transcript with the transcript of a worker started with SONIC_ENCODER_USE_VM=1
		w, err := getWorker("SONIC_ENCODER_USE_VM=1")
		if err != nil {
			panic("harness: cannot start worker: " + err.Error())
		}
		if !c12WorkerChecked {
			info, _ := w.ask("INFO", &InfoCase{})
			if !strings.Contains(info, "vm=true") {
				panic("harness: SONIC_ENCODER_USE_VM did not select the VM: " + info)
			}
			c12WorkerChecked = true
		}
		verifhook.SetEncoderVM(true)
		local := wireForm(c.Transcript())
		verifhook.SetEncoderVM(false)
		jitLocal := wireForm(c.Transcript())
		remote, err := w.ask("C12", c)
		res.Sub++
		res.Classes = append(res.Classes, "cross-process")
		if _, ok := err.(errWorkerTimeout); ok {
			res.Inconclusive = "C12 worker: " + err.Error()
			return
		}
		if err != nil {
			res.Err = fmt.Errorf("VM worker: %v", err)
			return
		}
		if remote != local || remote != jitLocal {
			k := 0
			for k < len(remote) && k < len(local) && remote[k] == local[k] {
				k++
			}
			if k == len(remote) && k == len(local) {
				for k = 0; k < len(remote) && k < len(jitLocal) && remote[k] == jitLocal[k]; k++ {
				}
			}
			lo := k - 40
			if lo < 0 {
				lo = 0
			}
			cut := func(x string) string {
				if lo < len(x) {
					return clipS(x[lo:])
				}
				return ""
			}
			res.Err = fmt.Errorf("transcripts differ at offset %d: worker with SONIC_ENCODER_USE_VM=1: ...%s; in-process VM: ...%s; in-process JIT: ...%s", k, cut(remote), cut(local), cut(jitLocal))
			return
		}
	}
	var f typeFeatures
	featuresOf(c.T, &f)
	res.NonTrivial = numOrStr && (f.structs+f.maps+f.slices > 0)
	res.Classes = append(res.Classes, f.classes()...)
	res.Classes = append(res.Classes, fmt.Sprintf("mask&7=%d", c.Mask&7))
	if c.Unsupported != 0 {
		res.Classes = append(res.Classes, "unsupported")
	}
	if c.Unrep != 0 {
		res.Classes = append(res.Classes, "unrepresentable")
	}
	return
}

// c12Classify maps a JIT/VM byte difference to a listed known finding.
func c12Classify(c *C12Case, v reflect.Value, jit, vm []byte) string {
	return ""
}

var _ = math.Signbit
