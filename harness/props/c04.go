package props

import (
	"encoding/json"
	"fmt"
	"math"
	"reflect"

	"github.com/bytedance/sonic"
	"github.com/bytedance/sonic/encoder"
	"pgregory.net/rapid"
	"verif/harness/cat"
	"verif/harness/gen"
	"verif/harness/ref"
	"verif/harness/stat"
	"verif/harness/tv"
)

// C04Case: a round-trippable value encoded under one of the 512 encoder
// option masks and decoded again by sonic and by encoding/json; or an
// unrepresentable value that must produce an error.
type C04Case struct {
	TypedValue
	Mask    uint64 `json:"mask"`
	Unrep   int    `json:"unrep,omitempty"`    // 0 = round-trip case; else kind of unrepresentable value
	UnrepAt int    `json:"unrep_at,omitempty"` // shape the unrepresentable value is embedded in
}

func init() { register("C04", func() Case { return &C04Case{} }) }

const (
	optSortMapKeys             = uint64(encoder.SortMapKeys)
	optEscapeHTML              = uint64(encoder.EscapeHTML)
	optCompactMarshaler        = uint64(encoder.CompactMarshaler)
	optNoQuoteTextMarshaler    = uint64(encoder.NoQuoteTextMarshaler)
	optNoNullSliceOrMap        = uint64(encoder.NoNullSliceOrMap)
	optValidateString          = uint64(encoder.ValidateString)
	optNoValidateJSONMarshaler = uint64(encoder.NoValidateJSONMarshaler)
	optNoEncoderNewline        = uint64(encoder.NoEncoderNewline)
	optEncodeNullForInfOrNan   = uint64(encoder.EncodeNullForInfOrNan)
)

// text marshalers of the catalogue whose text is not a JSON literal
var unquotedText = map[string]bool{"TVal": true, "TPtr": true, "TKey": true, "TIntKey": true, "TStructKey": true, "MBoth": true, "Omit": true, "TErr": true}

func specHasCat(s tv.TypeSpec, names map[string]bool) bool {
	var f typeFeatures
	featuresOf(s, &f)
	for n := range f.catNames {
		if names[n] {
			return true
		}
	}
	return false
}

func drawC04(t *rapid.T) Case {
	c := &C04Case{}
	// the shard/sequence position enumerates the masks; rapid draws it so it shrinks
	c.Mask = uint64(rapid.IntRange(0, 511).Draw(t, "mask"))
	if rapid.IntRange(0, 7).Draw(t, "unrepresentable") == 0 {
		c.Unrep = rapid.IntRange(1, 14).Draw(t, "unrepkind")
		c.UnrepAt = rapid.IntRange(0, 5).Draw(t, "unrepat")
		c.TypedValue, _, _ = drawTypedValue(t, gen.TypeOpt{Flav: gen.FlavRoundTrip, MaxDepth: 1}, gen.ValOpt{RoundTrip: true, HTMLFree: true})
		if c.Mask&optNoQuoteTextMarshaler != 0 && (specHasCat(c.T, unquotedText) || c.Unrep == 12 || c.Unrep == 13) {
			c.Mask &^= optNoQuoteTextMarshaler
		}
		return c
	}
	to := gen.TypeOpt{Flav: gen.FlavRoundTrip, Fresh: rapid.Bool().Draw(t, "fresh"), MaxDepth: 3}
	if thorough() {
		to.MaxDepth = rapid.IntRange(2, 5).Draw(t, "maxdepth")
		to.MaxFields = rapid.IntRange(3, 12).Draw(t, "maxfields")
	}
	c.TypedValue, _, _ = drawTypedValue(t, to, gen.ValOpt{RoundTrip: true, HTMLFree: true, Long: thorough()})
	if c.Mask&optNoQuoteTextMarshaler != 0 && specHasCat(c.T, unquotedText) {
		// documented caller error: NoQuoteTextMarshaler with a marshaler whose text is not a literal
		c.Mask &^= optNoQuoteTextMarshaler
	}
	return c
}

// c04Normalise applies to the expected value the transformations the options,
// the omitempty rule and JSON itself define (JSON has one null: a pointer to
// something that encodes as null comes back as a nil pointer). It returns
// whether v encodes as null.
func c04Normalise(v reflect.Value, mask uint64) { c04Norm(v, reflect.StructField{}, mask, 0) }

func c04Norm(x reflect.Value, sf reflect.StructField, mask uint64, depth int) (isNull bool) {
	if depth > 100 {
		return false
	}
	omit := containsOpt(string(sf.Tag), "omitempty")
	if !x.CanInterface() {
		return false
	}
	switch x.Kind() {
	case reflect.Ptr:
		if x.IsNil() {
			return true
		}
		if c04Norm(x.Elem(), reflect.StructField{}, mask, depth+1) {
			if x.CanSet() {
				x.Set(reflect.Zero(x.Type()))
			}
			return true
		}
		return false
	case reflect.Interface:
		if x.IsNil() {
			return true
		}
		e := reflect.New(x.Elem().Type()).Elem()
		e.Set(x.Elem())
		n := c04Norm(e, reflect.StructField{}, mask, depth+1)
		if x.CanSet() {
			if n {
				x.Set(reflect.Zero(x.Type()))
			} else {
				x.Set(e)
			}
		}
		return n
	case reflect.Slice, reflect.Map:
		_, isM := x.Interface().(json.Marshaler)
		isRaw := x.Type() == reflect.TypeOf(json.RawMessage(nil))
		if omit && x.Len() == 0 {
			if x.CanSet() {
				x.Set(reflect.Zero(x.Type())) // omitted → stays nil after decoding
			}
			return false
		}
		if isRaw {
			return string(x.Bytes()) == "null"
		}
		if isM {
			return false
		}
		if x.IsNil() {
			if mask&optNoNullSliceOrMap != 0 {
				if x.CanSet() {
					if x.Kind() == reflect.Slice {
						x.Set(reflect.MakeSlice(x.Type(), 0, 0))
					} else {
						x.Set(reflect.MakeMap(x.Type()))
					}
				}
				return false
			}
			return true
		}
		if x.Kind() == reflect.Slice {
			for i := 0; i < x.Len(); i++ {
				c04Norm(x.Index(i), reflect.StructField{}, mask, depth+1)
			}
		} else {
			for _, k := range x.MapKeys() {
				e := reflect.New(x.Type().Elem()).Elem()
				e.Set(x.MapIndex(k))
				c04Norm(e, reflect.StructField{}, mask, depth+1)
				x.SetMapIndex(k, e)
			}
		}
		return false
	case reflect.Array:
		for i := 0; i < x.Len(); i++ {
			c04Norm(x.Index(i), reflect.StructField{}, mask, depth+1)
		}
	case reflect.Struct:
		if _, isM := x.Interface().(json.Marshaler); isM {
			return false
		}
		for i := 0; i < x.NumField(); i++ {
			c04Norm(x.Field(i), x.Type().Field(i), mask, depth+1)
		}
	}
	return false
}

func hasNegZero(v reflect.Value) bool {
	found := false
	mutateValue(copyValue(v), reflect.StructField{}, func(x reflect.Value, _ reflect.StructField) {
		if (x.Kind() == reflect.Float32 || x.Kind() == reflect.Float64) && x.Float() == 0 && math.Signbit(x.Float()) {
			found = true
		}
	}, 0)
	return found
}

func flipAllNegZero(v reflect.Value) {
	mutateValue(v, reflect.StructField{}, func(x reflect.Value, _ reflect.StructField) {
		if (x.Kind() == reflect.Float32 || x.Kind() == reflect.Float64) && x.CanSet() && x.Float() == 0 && math.Signbit(x.Float()) {
			x.SetFloat(0)
		}
	}, 0)
}

func (c *C04Case) Run() (res stat.Result) {
	if c.Unrep != 0 {
		return c.runUnrep()
	}
	ty, v, err := c.Materialise()
	if err != nil {
		res.Err = fmt.Errorf("harness: %v", err)
		return
	}
	res.Programs = firstUse(ty)
	opts := encoder.Options(c.Mask)
	res.Sub++
	out, err := encoder.Encode(v.Interface(), opts)
	if err != nil {
		res.Err = fmt.Errorf("Encode(%s, mask %#x) failed on a representable value: %v", ty, c.Mask, err)
		return
	}
	if !json.Valid(out) || !ref.Structural(out) {
		res.Err = fmt.Errorf("Encode(%s, mask %#x) is not one well-formed JSON value: %s", ty, c.Mask, clipB(out))
		return
	}
	want := copyValue(v)
	c04Normalise(want, c.Mask)
	negZero := hasNegZero(v)
	decoders := []struct {
		name string
		dec  func([]byte, interface{}) error
	}{
		{"encoding/json", json.Unmarshal},
		{"sonic.ConfigStd", sonic.ConfigStd.Unmarshal},
		{"sonic.ConfigDefault", sonic.ConfigDefault.Unmarshal},
	}
	for _, d := range decoders {
		res.Sub++
		got := reflect.New(ty)
		if err := d.dec(out, got.Interface()); err != nil {
			res.Err = fmt.Errorf("%s cannot decode Encode(%s, mask %#x) = %s: %v", d.name, ty, c.Mask, clipB(out), err)
			return
		}
		if diff := deepEq(want, got.Elem(), "", 0); diff != "" {
			if negZero && d.name != "encoding/json" && knownListed("C19-minus-zero-integer-literal") {
				w2 := copyValue(want)
				flipAllNegZero(w2)
				g2 := copyValue(got.Elem())
				flipAllNegZero(g2)
				if deepEq(w2, g2, "", 0) == "" {
					res.Known = append(res.Known, "C19-minus-zero-integer-literal")
					continue
				}
			}
			res.Err = fmt.Errorf("round trip through %s differs at %s\n type: %s\n mask: %#x\n text: %s", d.name, diff, ty, c.Mask, clipB(out))
			return
		}
	}
	// the same through the pointer (pointer-receiver methods become reachable)
	res.Sub++
	out2, err := encoder.Encode(v.Addr().Interface(), opts)
	if err != nil || !json.Valid(out2) {
		res.Err = fmt.Errorf("Encode(*%s, mask %#x): %v %s", ty, c.Mask, err, clipB(out2))
		return
	}
	got := reflect.New(ty)
	if err := sonic.ConfigStd.Unmarshal(out2, got.Interface()); err != nil {
		res.Err = fmt.Errorf("sonic cannot decode Encode(*%s, mask %#x) = %s: %v", ty, c.Mask, clipB(out2), err)
		return
	}
	if diff := deepEq(want, got.Elem(), "", 0); diff != "" {
		w2, g2 := copyValue(want), copyValue(got.Elem())
		flipAllNegZero(w2)
		flipAllNegZero(g2)
		if !(negZero && knownListed("C19-minus-zero-integer-literal") && deepEq(w2, g2, "", 0) == "") {
			res.Err = fmt.Errorf("round trip of pointer differs at %s\n type: %s\n mask: %#x\n text: %s", diff, ty, c.Mask, clipB(out2))
			return
		}
		res.Known = append(res.Known, "C19-minus-zero-integer-literal")
	}

	var f typeFeatures
	featuresOf(c.T, &f)
	toks, _ := ref.Scan(out)
	hasNumOrStr := false
	for _, tk := range toks {
		if tk.Kind == ref.TNumber || tk.Kind == ref.TString {
			hasNumOrStr = true
		}
	}
	res.NonTrivial = c.Mask != 0 && hasNumOrStr && (f.structs+f.maps+f.slices > 0)
	res.Classes = append(res.Classes, f.classes()...)
	res.Classes = append(res.Classes, fmt.Sprintf("mask&7=%d", c.Mask&7))
	if c.Mask&optNoNullSliceOrMap != 0 {
		res.Classes = append(res.Classes, "NoNullSliceOrMap")
	}
	if c.Mask&optNoQuoteTextMarshaler != 0 {
		res.Classes = append(res.Classes, "NoQuoteTextMarshaler")
	}
	if res.Programs > 0 {
		res.Classes = append(res.Classes, "new-type")
	}
	return
}

type c04Cycle struct {
	P *c04Cycle
	M map[string]interface{}
	S []interface{}
}

// unrepValue builds a value without a JSON representation. expectOK is true
// for the control kinds (and for kinds the active options make representable).
func (c *C04Case) unrepValue() (v interface{}, expectErr bool, noCrashOnly bool, what string) {
	mask := c.Mask
	switch c.Unrep {
	case 1:
		return math.NaN(), mask&optEncodeNullForInfOrNan == 0, false, "NaN"
	case 2:
		return float32(math.Inf(-1)), mask&optEncodeNullForInfOrNan == 0, false, "float32 -Inf"
	case 3:
		f := math.Inf(1)
		return &f, mask&optEncodeNullForInfOrNan == 0, false, "*float64 +Inf"
	case 4:
		return make(chan int), true, false, "chan"
	case 5:
		return func() {}, true, false, "func"
	case 6:
		return complex(1, 2), true, false, "complex128"
	case 7:
		bad := []string{"abc", "1e", "-", "1.", "0x10", "1 2", "--1", "\"1\"", "1,2", "Infinity", "NaN", " 1", "1 ", "+1", ".5", "01"}
		return json.Number(bad[int(mask>>3)%len(bad)]), true, false, "invalid json.Number"
	case 8:
		x := &c04Cycle{}
		x.P = x
		return x, true, false, "pointer cycle"
	case 9:
		m := map[string]interface{}{}
		m["m"] = m
		return m, true, false, "map cycle"
	case 10:
		s := make([]interface{}, 1)
		s[0] = s
		return s, true, false, "slice cycle"
	case 11:
		mode := int(mask>>4) % 8
		// garbage from a Marshaler: rejected unless validation is explicitly disabled
		if mode == 0 {
			return cat.MErr{Mode: 0}, true, false, "Marshaler returning an error"
		}
		return cat.MErr{Mode: mode}, mask&optNoValidateJSONMarshaler == 0, mask&optNoValidateJSONMarshaler != 0, fmt.Sprintf("Marshaler returning garbage mode %d", mode)
	case 12:
		return cat.TErr{Fail: true}, true, false, "TextMarshaler returning an error"
	case 13:
		return map[cat.TErr]int{{Fail: true}: 1}, true, false, "TextMarshaler key returning an error"
	default:
		return cat.MErr{Mode: 8}, false, false, "well-behaved Marshaler (control)"
	}
}

func (c *C04Case) runUnrep() (res stat.Result) {
	u, expectErr, noCrashOnly, what := c.unrepValue()
	_, ctx, err := c.Materialise()
	if err != nil {
		res.Err = fmt.Errorf("harness: %v", err)
		return
	}
	var v interface{}
	switch c.UnrepAt {
	case 0:
		v = u
	case 1:
		v = []interface{}{ctx.Interface(), u}
	case 2:
		v = map[string]interface{}{"a": ctx.Interface(), "u": u}
	case 3:
		v = struct {
			A interface{}
			U interface{} `json:"u,omitempty"`
		}{ctx.Interface(), u}
	case 4:
		v = &u
	default:
		v = [][]interface{}{{ctx.Interface()}, {u, u}}
	}
	res.Sub++
	out, eerr := encoder.Encode(v, encoder.Options(c.Mask))
	res.Classes = append(res.Classes, "unrep:"+what)
	res.NonTrivial = true
	if noCrashOnly {
		return
	}
	if expectErr {
		if eerr == nil {
			res.Err = fmt.Errorf("Encode(%s at shape %d, mask %#x) succeeded with %s; an error is required", what, c.UnrepAt, c.Mask, clipB(out))
		}
		return
	}
	if eerr != nil {
		res.Err = fmt.Errorf("Encode(%s at shape %d, mask %#x) failed: %v", what, c.UnrepAt, c.Mask, eerr)
		return
	}
	if !json.Valid(out) {
		res.Err = fmt.Errorf("Encode(%s at shape %d, mask %#x) produced malformed text %s", what, c.UnrepAt, c.Mask, clipB(out))
	}
	return
}
