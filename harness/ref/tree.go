package ref

import (
	"bytes"
	"strings"
)

// Node is a JSON value with its source span; objects keep every member in
// source order, duplicates included.
type Node struct {
	Kind     int // TObjOpen (object), TArrOpen (array), TString, TNumber, TTrue, TFalse, TNull
	Beg, End int // span in the source
	Keys     []Key
	Elems    []*Node // array elements or object member values (parallel to Keys)
	Dirty    bool    // set by editing helpers: the subtree no longer equals its source span
}

// Key is an object key: raw literal span and decoded string.
type Key struct {
	Beg, End int
	Str      string // decoded as encoding/json would
	Flawed   bool   // literal body encoding/json would reject
}

// Parse builds the ordered tree of a Structural document, or nil.
func Parse(doc []byte) *Node {
	toks, ok := Scan(doc)
	if !ok {
		return nil
	}
	if e, good := parseValue(toks, 0); !good || e != len(toks) {
		return nil
	}
	p := 0
	return buildNode(doc, toks, &p)
}

func buildNode(doc []byte, toks []Token, p *int) *Node {
	t := toks[*p]
	n := &Node{Kind: t.Kind, Beg: t.Beg}
	switch t.Kind {
	case TObjOpen:
		*p++
		for toks[*p].Kind != TObjClose {
			if toks[*p].Kind == TComma {
				*p++
			}
			kt := toks[*p]
			s, fl := Unquote(doc[kt.Beg+1 : kt.End-1])
			n.Keys = append(n.Keys, Key{kt.Beg, kt.End, string(s), fl.BadEscape || fl.Control})
			*p += 2
			n.Elems = append(n.Elems, buildNode(doc, toks, p))
		}
		n.End = toks[*p].End
		*p++
	case TArrOpen:
		*p++
		for toks[*p].Kind != TArrClose {
			if toks[*p].Kind == TComma {
				*p++
			}
			n.Elems = append(n.Elems, buildNode(doc, toks, p))
		}
		n.End = toks[*p].End
		*p++
	default:
		n.End = t.End
		*p++
	}
	return n
}

// Render writes the tree back compactly, copying token texts from doc.
func (n *Node) Render(doc []byte, buf *bytes.Buffer) {
	if !n.Dirty {
		buf.Write(doc[n.Beg:n.End]) // untouched subtrees are copied verbatim, white space included
		return
	}
	switch n.Kind {
	case TObjOpen:
		buf.WriteByte('{')
		for i, k := range n.Keys {
			if i > 0 {
				buf.WriteByte(',')
			}
			buf.Write(doc[k.Beg:k.End])
			buf.WriteByte(':')
			n.Elems[i].Render(doc, buf)
		}
		buf.WriteByte('}')
	case TArrOpen:
		buf.WriteByte('[')
		for i, e := range n.Elems {
			if i > 0 {
				buf.WriteByte(',')
			}
			e.Render(doc, buf)
		}
		buf.WriteByte(']')
	default:
		buf.Write(doc[n.Beg:n.End])
	}
}

// DropEarlierDuplicates returns doc with, in every object, all but the last
// member of each group of members whose decoded keys are equal removed; n is
// the number of members removed. doc must be Structural.
func DropEarlierDuplicates(doc []byte) (out []byte, n int) {
	root := Parse(doc)
	if root == nil {
		return doc, 0
	}
	var walk func(x *Node)
	walk = func(x *Node) {
		if x.Kind == TObjOpen {
			last := map[string]int{}
			for i, k := range x.Keys {
				last[k.Str] = i
			}
			var ks []Key
			var es []*Node
			for i, k := range x.Keys {
				if last[k.Str] != i {
					n++
					continue
				}
				ks = append(ks, k)
				es = append(es, x.Elems[i])
			}
			if len(ks) != len(x.Keys) {
				x.Dirty = true
			}
			x.Keys, x.Elems = ks, es
		}
		for _, e := range x.Elems {
			walk(e)
			x.Dirty = x.Dirty || e.Dirty
		}
	}
	walk(root)
	var buf bytes.Buffer
	root.Render(doc, &buf)
	return buf.Bytes(), n
}

// DupRef names one object member: object ordinal in pre-order, member index.
type DupRef struct{ Obj, Member int }

func numberObjects(root *Node) map[*Node]int {
	ids := map[*Node]int{}
	var walk func(x *Node)
	walk = func(x *Node) {
		if x.Kind == TObjOpen {
			ids[x] = len(ids)
		}
		for _, e := range x.Elems {
			walk(e)
		}
	}
	walk(root)
	return ids
}

// EarlierDuplicates lists, for every object of the document, the members that
// are followed by a later member with an equal decoded key.
func EarlierDuplicates(doc []byte) []DupRef {
	root := Parse(doc)
	if root == nil {
		return nil
	}
	ids := numberObjects(root)
	var out []DupRef
	var walk func(x *Node)
	walk = func(x *Node) {
		if x.Kind == TObjOpen {
			last := map[string]int{}
			for i, k := range x.Keys {
				last[k.Str] = i
			}
			for i, k := range x.Keys {
				if last[k.Str] != i {
					out = append(out, DupRef{ids[x], i})
				}
			}
		}
		for _, e := range x.Elems {
			walk(e)
		}
	}
	walk(root)
	return out
}

// EarlierDuplicatesFold is EarlierDuplicates with keys compared under Unicode case folding: members that
// bind to the same struct field (encoding/json matches field names case-insensitively) count as duplicates.
func EarlierDuplicatesFold(doc []byte) []DupRef {
	root := Parse(doc)
	if root == nil {
		return nil
	}
	ids := numberObjects(root)
	var out []DupRef
	var walk func(x *Node)
	walk = func(x *Node) {
		if x.Kind == TObjOpen {
			for i, k := range x.Keys {
				for j := i + 1; j < len(x.Keys); j++ {
					if strings.EqualFold(k.Str, x.Keys[j].Str) {
						out = append(out, DupRef{ids[x], i})
						break
					}
				}
			}
		}
		for _, e := range x.Elems {
			walk(e)
		}
	}
	walk(root)
	return out
}

// RemoveMembers returns doc (compact) without the listed members.
func RemoveMembers(doc []byte, drop []DupRef) []byte {
	root := Parse(doc)
	if root == nil {
		return doc
	}
	ids := numberObjects(root)
	set := map[DupRef]bool{}
	for _, d := range drop {
		set[d] = true
	}
	var walk func(x *Node)
	walk = func(x *Node) {
		if x.Kind == TObjOpen {
			var ks []Key
			var es []*Node
			for i, k := range x.Keys {
				if set[DupRef{ids[x], i}] {
					continue
				}
				ks = append(ks, k)
				es = append(es, x.Elems[i])
			}
			if len(ks) != len(x.Keys) {
				x.Dirty = true
			}
			x.Keys, x.Elems = ks, es
		}
		for _, e := range x.Elems {
			walk(e)
			x.Dirty = x.Dirty || e.Dirty
		}
	}
	walk(root)
	var buf bytes.Buffer
	root.Render(doc, &buf)
	return buf.Bytes()
}
