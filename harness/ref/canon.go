package ref

import (
	"bytes"
	"sort"
)

// SortMembers returns doc with the members of every object sorted by their raw
// key text (ties by raw value text); all token texts are kept byte for byte and
// white space between tokens is dropped. ok is false if doc is not Structural.
// Two encodings of the same value that differ only in map iteration order have
// equal SortMembers results.
func SortMembers(doc []byte) (out []byte, ok bool) {
	toks, lexOK := Scan(doc)
	if !lexOK {
		return nil, false
	}
	if e, good := parseValue(toks, 0); !good || e != len(toks) {
		return nil, false
	}
	var buf bytes.Buffer
	p := 0
	canonValue(doc, toks, &p, &buf)
	return buf.Bytes(), true
}

func canonValue(doc []byte, toks []Token, p *int, buf *bytes.Buffer) {
	t := toks[*p]
	switch t.Kind {
	case TObjOpen:
		*p++
		type member struct{ k, v []byte }
		var ms []member
		for toks[*p].Kind != TObjClose {
			if toks[*p].Kind == TComma {
				*p++
			}
			k := doc[toks[*p].Beg:toks[*p].End]
			*p += 2 // key, colon
			var vb bytes.Buffer
			canonValue(doc, toks, p, &vb)
			ms = append(ms, member{k, vb.Bytes()})
		}
		*p++
		sort.SliceStable(ms, func(i, j int) bool {
			if c := bytes.Compare(ms[i].k, ms[j].k); c != 0 {
				return c < 0
			}
			return bytes.Compare(ms[i].v, ms[j].v) < 0
		})
		buf.WriteByte('{')
		for i, m := range ms {
			if i > 0 {
				buf.WriteByte(',')
			}
			buf.Write(m.k)
			buf.WriteByte(':')
			buf.Write(m.v)
		}
		buf.WriteByte('}')
	case TArrOpen:
		*p++
		buf.WriteByte('[')
		first := true
		for toks[*p].Kind != TArrClose {
			if toks[*p].Kind == TComma {
				*p++
			}
			if !first {
				buf.WriteByte(',')
			}
			first = false
			canonValue(doc, toks, p, buf)
		}
		*p++
		buf.WriteByte(']')
	default:
		buf.Write(doc[t.Beg:t.End])
		*p++
	}
}
