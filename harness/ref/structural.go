// Package ref holds the reference oracles of the harness. Nothing in here
// imports sonic; everything is written to be obviously right rather than fast.
package ref

// Token kinds produced by Scan.
const (
	TObjOpen = iota
	TObjClose
	TArrOpen
	TArrClose
	TColon
	TComma
	TString
	TNumber
	TTrue
	TFalse
	TNull
)

// Token is one lexical token with its source span [Beg,End).
type Token struct {
	Kind     int
	Beg, End int
}

func isSpace(c byte) bool { return c == ' ' || c == '\t' || c == '\r' || c == '\n' }
func isDigit(c byte) bool { return c >= '0' && c <= '9' }

// scanNumber returns the end of a strict RFC 8259 number starting at i, or -1.
func scanNumber(b []byte, i int) int {
	n := len(b)
	if i < n && b[i] == '-' {
		i++
	}
	if i >= n {
		return -1
	}
	if b[i] == '0' {
		i++
	} else if b[i] >= '1' && b[i] <= '9' {
		for i < n && isDigit(b[i]) {
			i++
		}
	} else {
		return -1
	}
	if i < n && b[i] == '.' {
		i++
		if i >= n || !isDigit(b[i]) {
			return -1
		}
		for i < n && isDigit(b[i]) {
			i++
		}
	}
	if i < n && (b[i] == 'e' || b[i] == 'E') {
		i++
		if i < n && (b[i] == '+' || b[i] == '-') {
			i++
		}
		if i >= n || !isDigit(b[i]) {
			return -1
		}
		for i < n && isDigit(b[i]) {
			i++
		}
	}
	return i
}

// scanStringLenient returns the index after the closing quote of a string
// literal that starts at i (b[i]=='"'), or -1 if unterminated. Bodies are
// lenient: a backslash consumes the next byte whatever it is; every other byte
// is allowed.
func scanStringLenient(b []byte, i int) int {
	i++
	for i < len(b) {
		switch b[i] {
		case '"':
			return i + 1
		case '\\':
			i += 2
		default:
			i++
		}
	}
	return -1
}

// Scan tokenises b with lenient string bodies and strict everything else.
// ok is false when a lexical error is found (bad literal, bad number,
// unterminated string, stray byte).
func Scan(b []byte) (toks []Token, ok bool) {
	i, n := 0, len(b)
	for i < n {
		c := b[i]
		switch {
		case isSpace(c):
			i++
		case c == '{':
			toks = append(toks, Token{TObjOpen, i, i + 1})
			i++
		case c == '}':
			toks = append(toks, Token{TObjClose, i, i + 1})
			i++
		case c == '[':
			toks = append(toks, Token{TArrOpen, i, i + 1})
			i++
		case c == ']':
			toks = append(toks, Token{TArrClose, i, i + 1})
			i++
		case c == ':':
			toks = append(toks, Token{TColon, i, i + 1})
			i++
		case c == ',':
			toks = append(toks, Token{TComma, i, i + 1})
			i++
		case c == '"':
			e := scanStringLenient(b, i)
			if e < 0 {
				return toks, false
			}
			toks = append(toks, Token{TString, i, e})
			i = e
		case c == '-' || isDigit(c):
			e := scanNumber(b, i)
			if e < 0 {
				return toks, false
			}
			toks = append(toks, Token{TNumber, i, e})
			i = e
		case c == 't':
			if i+4 > n || string(b[i:i+4]) != "true" {
				return toks, false
			}
			toks = append(toks, Token{TTrue, i, i + 4})
			i += 4
		case c == 'f':
			if i+5 > n || string(b[i:i+5]) != "false" {
				return toks, false
			}
			toks = append(toks, Token{TFalse, i, i + 5})
			i += 5
		case c == 'n':
			if i+4 > n || string(b[i:i+4]) != "null" {
				return toks, false
			}
			toks = append(toks, Token{TNull, i, i + 4})
			i += 4
		default:
			return toks, false
		}
	}
	return toks, true
}

// Structural reports whether b is exactly one JSON value by the RFC 8259
// grammar with lenient string bodies (see Scan). It is the harness's definition
// of "not structurally malformed". Iterative, no depth limit.
func Structural(b []byte) bool {
	toks, ok := Scan(b)
	if !ok {
		return false
	}
	// adjacent scalar tokens without separator (e.g. "1true") are caught by
	// the grammar below since two values can never be adjacent.
	// also reject tokens that touch without a delimiter, e.g. `truefalse`,
	// `1"a"` — the grammar rejects them as well (value value).
	end, ok := parseValue(toks, 0)
	return ok && end == len(toks)
}

// parseValue checks one value starting at token p; returns index after it.
func parseValue(toks []Token, p int) (int, bool) {
	// explicit stack: 'o' = in object expecting key or close (after '{' or ','),
	// state machine below.
	type frame struct {
		obj   bool
		count int
	}
	var st []frame
	expectValue := true
	for {
		if expectValue {
			if p >= len(toks) {
				return p, false
			}
			t := toks[p]
			switch t.Kind {
			case TObjOpen:
				p++
				if p < len(toks) && toks[p].Kind == TObjClose {
					p++
					expectValue = false
					break
				}
				st = append(st, frame{obj: true})
				// expect key
				if p+1 >= len(toks) || toks[p].Kind != TString || toks[p+1].Kind != TColon {
					return p, false
				}
				p += 2
				expectValue = true
			case TArrOpen:
				p++
				if p < len(toks) && toks[p].Kind == TArrClose {
					p++
					expectValue = false
					break
				}
				st = append(st, frame{obj: false})
				expectValue = true
			case TString, TNumber, TTrue, TFalse, TNull:
				p++
				expectValue = false
			default:
				return p, false
			}
			continue
		}
		// a value has just been completed
		if len(st) == 0 {
			return p, true
		}
		if p >= len(toks) {
			return p, false
		}
		top := &st[len(st)-1]
		t := toks[p]
		if top.obj {
			switch t.Kind {
			case TComma:
				p++
				if p+1 >= len(toks) || toks[p].Kind != TString || toks[p+1].Kind != TColon {
					return p, false
				}
				p += 2
				expectValue = true
			case TObjClose:
				p++
				st = st[:len(st)-1]
			default:
				return p, false
			}
		} else {
			switch t.Kind {
			case TComma:
				p++
				expectValue = true
			case TArrClose:
				p++
				st = st[:len(st)-1]
			default:
				return p, false
			}
		}
	}
}

// FirstValueEnd returns the byte offset just after the first complete value in
// b (skipping leading white space) and where it starts, or ok=false if b does
// not start with a complete structurally valid value.
func FirstValueEnd(b []byte) (start, end int, ok bool) {
	// tokenise as far as possible; a lexical error later in the input must not
	// matter if the first value is complete before it.
	toks, _ := Scan(b)
	if len(toks) == 0 {
		return 0, 0, false
	}
	e, ok := parseValue(toks, 0)
	if !ok {
		return 0, 0, false
	}
	return toks[0].Beg, toks[e-1].End, true
}

// MaxDepth returns the maximum container nesting depth in a token stream.
func MaxDepth(b []byte) int {
	toks, _ := Scan(b)
	d, m := 0, 0
	for _, t := range toks {
		switch t.Kind {
		case TObjOpen, TArrOpen:
			d++
			if d > m {
				m = d
			}
		case TObjClose, TArrClose:
			d--
		}
	}
	return m
}
