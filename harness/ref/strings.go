package ref

import (
	"bytes"
	"unicode/utf16"
	"unicode/utf8"
)

// StringFlaws describes what is wrong with the body of a string literal.
type StringFlaws struct {
	Control     bool // raw byte < 0x20
	InvalidUTF8 bool // not valid UTF-8 outside escapes
	BadEscape   bool // \q, \u12, \uZZZZ, trailing backslash
	LoneSurr    bool // \uD800 not followed by low surrogate, or lone low surrogate
	HasEscape   bool
}

func (f StringFlaws) Any() bool { return f.Control || f.InvalidUTF8 || f.BadEscape }

func hex4(b []byte) (rune, bool) {
	if len(b) < 4 {
		return 0, false
	}
	var r rune
	for _, c := range b[:4] {
		switch {
		case c >= '0' && c <= '9':
			c -= '0'
		case c >= 'a' && c <= 'f':
			c = c - 'a' + 10
		case c >= 'A' && c <= 'F':
			c = c - 'A' + 10
		default:
			return 0, false
		}
		r = r<<4 | rune(c)
	}
	return r, true
}

// Unquote decodes the body (without the surrounding quotes) of a JSON string
// literal the way encoding/json does: escapes are decoded, surrogate pairs are
// combined, lone surrogates become U+FFFD, invalid UTF-8 bytes become U+FFFD.
// The flaws found on the way are reported; if BadEscape is set the result is
// meaningless (encoding/json rejects such a literal), Control likewise.
func Unquote(body []byte) ([]byte, StringFlaws) {
	var fl StringFlaws
	out := make([]byte, 0, len(body))
	i := 0
	for i < len(body) {
		c := body[i]
		switch {
		case c == '\\':
			fl.HasEscape = true
			i++
			if i >= len(body) {
				fl.BadEscape = true
				return out, fl
			}
			switch body[i] {
			case '"', '\\', '/':
				out = append(out, body[i])
				i++
			case 'b':
				out = append(out, '\b')
				i++
			case 'f':
				out = append(out, '\f')
				i++
			case 'n':
				out = append(out, '\n')
				i++
			case 'r':
				out = append(out, '\r')
				i++
			case 't':
				out = append(out, '\t')
				i++
			case 'u':
				i++
				r, ok := hex4(body[i:])
				if !ok {
					fl.BadEscape = true
					return out, fl
				}
				i += 4
				if utf16.IsSurrogate(r) {
					if i+6 <= len(body) && body[i] == '\\' && body[i+1] == 'u' {
						if r2, ok2 := hex4(body[i+2:]); ok2 {
							if dec := utf16.DecodeRune(r, r2); dec != utf8.RuneError {
								i += 6
								out = utf8.AppendRune(out, dec)
								break
							}
						}
					}
					fl.LoneSurr = true
					r = utf8.RuneError
				}
				out = utf8.AppendRune(out, r)
			default:
				fl.BadEscape = true
				return out, fl
			}
		case c < 0x20:
			fl.Control = true
			out = append(out, c)
			i++
		case c < utf8.RuneSelf:
			out = append(out, c)
			i++
		default:
			r, sz := utf8.DecodeRune(body[i:])
			if r == utf8.RuneError && sz == 1 {
				fl.InvalidUTF8 = true
				out = utf8.AppendRune(out, utf8.RuneError)
			} else {
				out = append(out, body[i:i+sz]...)
			}
			i += sz
		}
	}
	return out, fl
}

// UnquoteRawBytes is like Unquote but copies bytes outside escapes unchanged
// (no UTF-8 correction). Used where the definition is "all other bytes are
// copied unchanged".
func UnquoteRawBytes(body []byte) ([]byte, StringFlaws) {
	var fl StringFlaws
	out := make([]byte, 0, len(body))
	i := 0
	for i < len(body) {
		c := body[i]
		if c != '\\' {
			if c < 0x20 {
				fl.Control = true
			}
			out = append(out, c)
			i++
			continue
		}
		// find the extent of this escape (possibly a surrogate pair) and reuse Unquote
		j := i + 2
		if i+1 < len(body) && body[i+1] == 'u' {
			j = i + 6
			if j > len(body) {
				j = len(body)
			}
			if r, ok := hex4(body[i+2:]); ok && utf16.IsSurrogate(r) && j+6 <= len(body) && body[j] == '\\' && body[j+1] == 'u' {
				if r2, ok2 := hex4(body[j+2:]); ok2 && utf16.DecodeRune(r, r2) != utf8.RuneError {
					j += 6
				}
			}
		}
		if j > len(body) {
			j = len(body)
		}
		dec, f2 := Unquote(body[i:j])
		fl.HasEscape = true
		fl.BadEscape = fl.BadEscape || f2.BadEscape
		fl.LoneSurr = fl.LoneSurr || f2.LoneSurr
		if f2.BadEscape {
			return out, fl
		}
		out = append(out, dec...)
		i = j
	}
	if !utf8.Valid(out) {
		fl.InvalidUTF8 = true
	}
	return out, fl
}

// DocStringFlaws scans every string literal (keys included) of a document
// that Scan accepts and ORs their flaws.
func DocStringFlaws(b []byte) StringFlaws {
	toks, _ := Scan(b)
	var all StringFlaws
	for _, t := range toks {
		if t.Kind != TString {
			continue
		}
		_, f := Unquote(b[t.Beg+1 : t.End-1])
		all.Control = all.Control || f.Control
		all.InvalidUTF8 = all.InvalidUTF8 || f.InvalidUTF8
		all.BadEscape = all.BadEscape || f.BadEscape
		all.LoneSurr = all.LoneSurr || f.LoneSurr
		all.HasEscape = all.HasEscape || f.HasEscape
	}
	return all
}

// Sanitise returns a copy of doc in which every string literal whose body
// encoding/json would reject (raw control byte, bad escape) is replaced by a
// clean marker literal that cannot equal any decoding of the original. n is the
// number of literals replaced. doc must scan.
func Sanitise(doc []byte) (out []byte, n int) {
	toks, _ := Scan(doc)
	last := 0
	for _, t := range toks {
		if t.Kind != TString {
			continue
		}
		_, f := Unquote(doc[t.Beg+1 : t.End-1])
		if f.Control || f.BadEscape {
			out = append(out, doc[last:t.Beg]...)
			out = append(out, `"\u0001SANITISED\u0001"`...)
			last = t.End
			n++
		}
	}
	out = append(out, doc[last:]...)
	return out, n
}

// TokensEqual compares two JSON texts token by token: same kinds in the same
// order, number tokens byte-identical, string tokens denoting the same string.
// If relaxInner is set, two string tokens that differ also compare equal when
// both denoted strings are themselves quoted JSON string literals that denote
// the same string (the `,string` relaxation of DESIGN.md §3.3).
// Returns "" when equal, else a description of the first difference.
func TokensEqual(a, b []byte, relaxInner bool) string {
	ta, oka := Scan(a)
	tb, okb := Scan(b)
	if !oka || !okb {
		if !oka {
			return "first text does not tokenise"
		}
		return "second text does not tokenise"
	}
	if len(ta) != len(tb) {
		return diffMsg("token count differs", a, b)
	}
	for i := range ta {
		x, y := ta[i], tb[i]
		if x.Kind != y.Kind {
			return diffMsg("token kind differs", a[x.Beg:x.End], b[y.Beg:y.End])
		}
		switch x.Kind {
		case TNumber:
			if !bytes.Equal(a[x.Beg:x.End], b[y.Beg:y.End]) {
				return diffMsg("number literal differs", a[x.Beg:x.End], b[y.Beg:y.End])
			}
		case TString:
			sa, fa := Unquote(a[x.Beg+1 : x.End-1])
			sb, fb := Unquote(b[y.Beg+1 : y.End-1])
			if fa.BadEscape || fb.BadEscape || fa.Control || fb.Control {
				return diffMsg("string literal malformed", a[x.Beg:x.End], b[y.Beg:y.End])
			}
			if bytes.Equal(sa, sb) {
				continue
			}
			if relaxInner && len(sa) >= 2 && len(sb) >= 2 && sa[0] == '"' && sb[0] == '"' && sa[len(sa)-1] == '"' && sb[len(sb)-1] == '"' {
				ia, f1 := Unquote(sa[1 : len(sa)-1])
				ib, f2 := Unquote(sb[1 : len(sb)-1])
				if !f1.BadEscape && !f2.BadEscape && bytes.Equal(ia, ib) {
					continue
				}
			}
			return diffMsg("string differs", a[x.Beg:x.End], b[y.Beg:y.End])
		}
	}
	return ""
}

func diffMsg(what string, a, b []byte) string {
	return what + ": " + clip(a) + " vs " + clip(b)
}

func clip(b []byte) string {
	if len(b) > 120 {
		return string(b[:120]) + "…"
	}
	return string(b)
}

// CorrectUTF8 replaces every invalid byte of src by repl (each invalid byte
// once) and copies valid runes unchanged.
func CorrectUTF8(src []byte, repl []byte) []byte {
	out := make([]byte, 0, len(src))
	for i := 0; i < len(src); {
		r, sz := utf8.DecodeRune(src[i:])
		if r == utf8.RuneError && sz == 1 {
			out = append(out, repl...)
		} else {
			out = append(out, src[i:i+sz]...)
		}
		i += sz
	}
	return out
}

// UnterminatedStringQuirk reports whether doc matches the shape of the listed
// finding "unterminated string accepted when its length is a multiple of the
// SIMD block": the document ends inside a string literal and the number of
// bytes after that literal's opening quote is 0 or 1 modulo 32 (and >= 32).
func UnterminatedStringQuirk(doc []byte) bool {
	i, n := 0, len(doc)
	start := -1
	for i < n {
		if doc[i] != '"' {
			i++
			continue
		}
		e := scanStringLenient(doc, i)
		if e < 0 {
			start = i
			break
		}
		i = e
	}
	if start < 0 {
		return false
	}
	rest := n - start - 1
	return rest >= 32 && (rest%32 == 0 || rest%32 == 1)
}

// CorrectUTF8InStrings returns the JSON text with every invalid UTF-8 byte
// replaced by the six bytes �... no: by U+FFFD encoded as UTF-8.
func CorrectUTF8InStrings(doc []byte) []byte {
	return CorrectUTF8(doc, []byte("\xef\xbf\xbd"))
}
