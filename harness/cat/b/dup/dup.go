// Package dup (path b) declares a type that prints exactly like the one in path a.
package dup

type T struct {
	S string  `json:"s"`
	B float64 `json:"b"`
	A []int   `json:"a"`
}

type U struct {
	P *T
	X T
	N int
}
