// Package dup (path a) declares a type that prints exactly like the one in path b.
package dup

type T struct {
	A int    `json:"a"`
	S string `json:"s"`
}

type U struct {
	X T
	P *T
}
