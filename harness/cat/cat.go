// Package cat is the fixed catalogue of named Go types with methods that the
// generated composite types are built from. Every method is deterministic and
// every Marshaler has a matching Unmarshaler so that values round-trip.
package cat

import (
	"encoding/json"
	"errors"
	"fmt"
	"reflect"
	"strconv"
	"strings"
	"time"

	dupa "verif/harness/cat/a/dup"
	dupb "verif/harness/cat/b/dup"
)

// ---- named kinds without methods

type NInt int
type NInt8 int8
type NUint16 uint16
type NStr string
type NF64 float64
type NF32 float32
type NBool bool
type NBytes []byte
type NByte uint8
type NByteSlice []NByte
type NIface interface{}
type NMap map[string]int
type NSlice []string

// ---- json.Marshaler / Unmarshaler

// MVal: value-receiver MarshalJSON, pointer-receiver UnmarshalJSON.
type MVal struct{ A int }

func (m MVal) MarshalJSON() ([]byte, error) { return []byte(fmt.Sprintf(`{"mval":%d}`, m.A)), nil }
func (m *MVal) UnmarshalJSON(b []byte) error {
	var x struct {
		Mval *int `json:"mval"`
	}
	if err := json.Unmarshal(b, &x); err != nil {
		return err
	}
	if x.Mval == nil {
		if string(b) == "null" {
			return nil
		}
		return errors.New("MVal: missing mval")
	}
	m.A = *x.Mval
	return nil
}

// MPtr: pointer-receiver MarshalJSON and UnmarshalJSON.
type MPtr struct{ A int }

func (m *MPtr) MarshalJSON() ([]byte, error) { return []byte(fmt.Sprintf(`[%d]`, m.A)), nil }
func (m *MPtr) UnmarshalJSON(b []byte) error {
	var x []int
	if err := json.Unmarshal(b, &x); err != nil {
		return err
	}
	if len(x) != 1 {
		if string(b) == "null" {
			return nil
		}
		return errors.New("MPtr: want one element")
	}
	m.A = x[0]
	return nil
}

// MInt: Marshaler on a non-struct kind.
type MInt int

func (m MInt) MarshalJSON() ([]byte, error) { return []byte(`"mint` + strconv.Itoa(int(m)) + `"`), nil }
func (m *MInt) UnmarshalJSON(b []byte) error {
	s := string(b)
	if s == "null" {
		return nil
	}
	if !strings.HasPrefix(s, `"mint`) || !strings.HasSuffix(s, `"`) {
		return errors.New("MInt: bad text " + s)
	}
	n, err := strconv.Atoi(s[5 : len(s)-1])
	*m = MInt(n)
	return err
}

// MSlice: Marshaler on a slice kind (nil slice still calls the method in encoding/json? no: nil slice value of a Marshaler type is encoded by the method only when the value is not a nil pointer/interface).
type MSlice []int

func (m MSlice) MarshalJSON() ([]byte, error) {
	if m == nil {
		return []byte(`{"n":-1}`), nil
	}
	return []byte(fmt.Sprintf(`{"n":%d}`, len(m))), nil
}
func (m *MSlice) UnmarshalJSON(b []byte) error {
	var x struct{ N int }
	if string(b) == "null" {
		return nil
	}
	if err := json.Unmarshal(b, &x); err != nil {
		return err
	}
	if x.N == -1 {
		*m = nil
		return nil
	}
	if x.N < 0 || x.N > 1000 {
		return errors.New("MSlice: bad n")
	}
	*m = make(MSlice, x.N)
	return nil
}

// MSpace returns valid JSON with insignificant white space (compacted by encoding/json).
type MSpace struct{ A int }

func (m MSpace) MarshalJSON() ([]byte, error) {
	return []byte(fmt.Sprintf(" { \"sp\" :\n[ %d , \"<&>\" ] }\t", m.A)), nil
}
func (m *MSpace) UnmarshalJSON(b []byte) error {
	var x struct{ Sp []json.RawMessage }
	if string(b) == "null" {
		return nil
	}
	if err := json.Unmarshal(b, &x); err != nil {
		return err
	}
	if len(x.Sp) != 2 {
		return errors.New("MSpace: bad")
	}
	n, err := strconv.Atoi(string(x.Sp[0]))
	m.A = n
	return err
}

// ---- encoding.TextMarshaler / TextUnmarshaler

type TVal struct{ S string }

func (t TVal) MarshalText() ([]byte, error) { return []byte("tv:" + t.S), nil }
func (t *TVal) UnmarshalText(b []byte) error {
	if !strings.HasPrefix(string(b), "tv:") {
		return errors.New("TVal: missing prefix")
	}
	t.S = string(b[3:])
	return nil
}

type TPtr struct{ S string }

func (t *TPtr) MarshalText() ([]byte, error) { return []byte("tp:" + t.S), nil }
func (t *TPtr) UnmarshalText(b []byte) error {
	if !strings.HasPrefix(string(b), "tp:") {
		return errors.New("TPtr: missing prefix")
	}
	t.S = string(b[3:])
	return nil
}

// TQuoted returns text that is already a JSON string literal (for NoQuoteTextMarshaler).
type TQuoted struct{ S string }

func (t TQuoted) MarshalText() ([]byte, error) { return json.Marshal("q:" + t.S) }
func (t *TQuoted) UnmarshalText(b []byte) error {
	s := string(b)
	if len(b) > 0 && b[0] == '"' {
		if err := json.Unmarshal(b, &s); err != nil {
			return err
		}
	}
	if !strings.HasPrefix(s, "q:") {
		return errors.New("TQuoted: missing prefix")
	}
	t.S = s[2:]
	return nil
}

// TKey: string kind with text methods (as a map key encoding/json uses the string itself).
type TKey string

func (t TKey) MarshalText() ([]byte, error) { return []byte("key:" + string(t)), nil }
func (t *TKey) UnmarshalText(b []byte) error {
	if !strings.HasPrefix(string(b), "key:") {
		return errors.New("TKey: missing prefix")
	}
	*t = TKey(b[4:])
	return nil
}

// TIntKey: int kind with text methods (as a map key the text form is used).
type TIntKey int

func (t TIntKey) MarshalText() ([]byte, error) { return []byte("i" + strconv.Itoa(int(t))), nil }
func (t *TIntKey) UnmarshalText(b []byte) error {
	if len(b) < 2 || b[0] != 'i' {
		return errors.New("TIntKey: bad text")
	}
	n, err := strconv.Atoi(string(b[1:]))
	*t = TIntKey(n)
	return err
}

// TStructKey: comparable struct usable as a map key through its text form.
type TStructKey struct{ A, B int8 }

func (t TStructKey) MarshalText() ([]byte, error) {
	return []byte(fmt.Sprintf("%d/%d", t.A, t.B)), nil
}
func (t *TStructKey) UnmarshalText(b []byte) error {
	var a, c int
	if _, err := fmt.Sscanf(string(b), "%d/%d", &a, &c); err != nil {
		return err
	}
	if a < -128 || a > 127 || c < -128 || c > 127 {
		return errors.New("TStructKey: range")
	}
	t.A, t.B = int8(a), int8(c)
	return nil
}

// MBoth implements both interfaces; JSON wins for values, text for map keys.
type MBoth struct{ A int8 }

func (m MBoth) MarshalJSON() ([]byte, error) { return []byte(fmt.Sprintf(`{"both":%d}`, m.A)), nil }
func (m *MBoth) UnmarshalJSON(b []byte) error {
	var x struct{ Both int8 }
	if string(b) == "null" {
		return nil
	}
	if err := json.Unmarshal(b, &x); err != nil {
		return err
	}
	m.A = x.Both
	return nil
}
func (m MBoth) MarshalText() ([]byte, error) { return []byte(fmt.Sprintf("both%d", m.A)), nil }
func (m *MBoth) UnmarshalText(b []byte) error {
	if !strings.HasPrefix(string(b), "both") {
		return errors.New("MBoth: bad text")
	}
	n, err := strconv.Atoi(string(b[4:]))
	if err != nil || n < -128 || n > 127 {
		return errors.New("MBoth: bad number")
	}
	m.A = int8(n)
	return nil
}

// URec records what UnmarshalJSON is handed (never fails): exposes capture bytes.
type URec struct {
	Raw   string
	Calls int
}

func (u *URec) UnmarshalJSON(b []byte) error {
	u.Raw = string(b)
	u.Calls++
	return nil
}
func (u URec) MarshalJSON() ([]byte, error) {
	if u.Raw == "" {
		return []byte("null"), nil
	}
	return []byte(u.Raw), nil
}

// UFail fails on a particular payload.
type UFail struct{ V int }

func (u *UFail) UnmarshalJSON(b []byte) error {
	if string(b) == `"fail"` {
		return errors.New("UFail: asked to fail")
	}
	if string(b) == "null" {
		return nil
	}
	return json.Unmarshal(b, &u.V)
}

// ---- misbehaving marshalers (only used where errors are the expected outcome)

type MErr struct{ Mode int }

func (m MErr) MarshalJSON() ([]byte, error) {
	switch m.Mode {
	case 0:
		return nil, errors.New("MErr: refusing")
	case 1:
		return []byte(`{"unterminated":`), nil
	case 2:
		return []byte(`1 2`), nil
	case 3:
		return []byte(``), nil
	case 4:
		return []byte(`[1,]`), nil
	case 5:
		return []byte(`"bad` + "\x01" + `"`), nil
	case 6:
		return []byte(`nul`), nil
	case 7:
		return []byte("\"a\"x"), nil
	default:
		return []byte(`{"ok":true}`), nil
	}
}

type TErr struct{ Fail bool }

func (t TErr) MarshalText() ([]byte, error) {
	if t.Fail {
		return nil, errors.New("TErr: refusing")
	}
	return []byte("fine"), nil
}

// ---- recursive types

type Tree struct {
	V    int              `json:"v"`
	Kids []*Tree          `json:"kids,omitempty"`
	M    map[string]*Tree `json:"m,omitempty"`
}

type List struct {
	S    string `json:"s"`
	Next *List  `json:"next"`
}

type Mutual struct {
	A int
	B *MutualB
}
type MutualB struct {
	C []Mutual
	D *Mutual `json:",omitempty"`
}

// ---- embedding

type EmbA struct {
	X int
	Y string  `json:"y"`
	Z float64 `json:"z,omitempty"`
}
type EmbB struct {
	X int
	W bool
}
type embC struct {
	V int
	u int
}
type EmbD struct {
	Y string `json:"y"`
	K int    `json:"k,string"`
}

// Outer1: X is ambiguous (EmbA.X vs EmbB.X at the same depth, both untagged → dropped);
// y: Outer1.Y (depth 0, name "Y") vs EmbA.Y tagged "y" — different names; *EmbB allocated on demand.
type Outer1 struct {
	EmbA
	*EmbB
	embC
	Y string
	Q *EmbA `json:"q"`
}

// Outer2: tagged embedded struct is a plain field; embedded pointer to unexported struct type.
type Outer2 struct {
	EmbA `json:"emb"`
	*embC
	N NInt `json:"n,omitempty"`
}

// Outer3: two levels; tag on deeper level loses to shallower untagged.
type Outer3 struct {
	Outer1
	EmbD
	X int
}

// Outer4: tagged beats untagged at the same depth.
type Outer4 struct {
	EmbA
	EmbD
	T time.Duration `json:"t"`
}

// Deep nesting crossing the encoder's inline depth.
type D1 struct {
	A int
	N D2
}
type D2 struct {
	B string
	N D3
}
type D3 struct {
	C []int
	N D4
}
type D4 struct {
	D map[string]int
	N D5
}
type D5 struct {
	E *D6
	F float64
}
type D6 struct {
	G []D1 `json:"g,omitempty"`
	H bool
}

// Wide has more than 50 fields (beyond small-struct fast paths and hash thresholds).
type Wide struct {
	F00, F01, F02, F03, F04, F05, F06, F07, F08, F09 int
	F10, F11, F12, F13, F14, F15, F16, F17, F18, F19 string
	F20, F21, F22, F23, F24, F25, F26, F27, F28, F29 *int
	F30, F31, F32, F33, F34, F35, F36, F37, F38, F39 float64
	F40, F41, F42, F43, F44, F45, F46, F47, F48, F49 bool
	F50, F51, F52, F53, F54, F55, F56, F57, F58, F59 []int8
}

// Omit exercises omitempty on every kind.
type Omit struct {
	B  bool                   `json:"b,omitempty"`
	I  int                    `json:"i,omitempty"`
	U  uint16                 `json:"u,omitempty"`
	F  float32                `json:"f,omitempty"`
	S  string                 `json:"s,omitempty"`
	P  *int                   `json:"p,omitempty"`
	SL []int                  `json:"sl,omitempty"`
	M  map[string]int         `json:"m,omitempty"`
	A  [0]int                 `json:"a,omitempty"`
	A2 [2]int                 `json:"a2,omitempty"`
	IF interface{}            `json:"if,omitempty"`
	ST struct{}               `json:"st,omitempty"`
	N  json.Number            `json:"n,omitempty"`
	R  json.RawMessage        `json:"r,omitempty"`
	T  TVal                   `json:"t,omitempty"`
	MV *MVal                  `json:"mv,omitempty"`
	BY []byte                 `json:"by,omitempty"`
	MI map[int]interface{}    `json:"mi,omitempty"`
	PS *string                `json:"ps,omitempty"`
	U8 uint8                  `json:"u8,omitempty"`
	X  map[string]interface{} `json:"x,omitempty"`
}

// StrOpt exercises the ,string option on every kind it applies to (and some it does not).
type StrOpt struct {
	B  bool        `json:"b,string"`
	I  int         `json:"i,string"`
	I8 int8        `json:"i8,string"`
	U  uint64      `json:"u,string"`
	F  float64     `json:"f,string"`
	F3 float32     `json:"f3,string"`
	S  string      `json:"s,string"`
	P  *int        `json:"p,string"`
	PS *string     `json:"ps,string"`
	N  json.Number `json:"n,string"`
	SL []int       `json:"sl,string"`
	NI NInt        `json:"ni,string"`
	NS NStr        `json:"ns,string"`
	IF interface{} `json:"if,string"`
	UP uintptr     `json:"up,string"`
	OE int         `json:"oe,string,omitempty"`
}

// Entry is one catalogue type.
type Entry struct {
	Name     string
	Type     reflect.Type
	MapKey   bool // usable as a JSON object key by encoding/json
	Misbehav bool // only for error-expected streams
	Recurse  bool
}

var Entries = []Entry{
	{Name: "NInt", Type: reflect.TypeOf(NInt(0)), MapKey: true},
	{Name: "NInt8", Type: reflect.TypeOf(NInt8(0)), MapKey: true},
	{Name: "NUint16", Type: reflect.TypeOf(NUint16(0)), MapKey: true},
	{Name: "NStr", Type: reflect.TypeOf(NStr("")), MapKey: true},
	{Name: "NF64", Type: reflect.TypeOf(NF64(0))},
	{Name: "NF32", Type: reflect.TypeOf(NF32(0))},
	{Name: "NBool", Type: reflect.TypeOf(NBool(false))},
	{Name: "NBytes", Type: reflect.TypeOf(NBytes(nil))},
	{Name: "NByteSlice", Type: reflect.TypeOf(NByteSlice(nil))},
	{Name: "NIface", Type: reflect.TypeOf((*NIface)(nil)).Elem()},
	{Name: "NMap", Type: reflect.TypeOf(NMap(nil))},
	{Name: "NSlice", Type: reflect.TypeOf(NSlice(nil))},
	{Name: "MVal", Type: reflect.TypeOf(MVal{})},
	{Name: "MPtr", Type: reflect.TypeOf(MPtr{})},
	{Name: "MInt", Type: reflect.TypeOf(MInt(0))},
	{Name: "MSlice", Type: reflect.TypeOf(MSlice(nil))},
	{Name: "MSpace", Type: reflect.TypeOf(MSpace{})},
	{Name: "TVal", Type: reflect.TypeOf(TVal{}), MapKey: true},
	{Name: "TPtr", Type: reflect.TypeOf(TPtr{})},
	{Name: "TQuoted", Type: reflect.TypeOf(TQuoted{})},
	{Name: "TKey", Type: reflect.TypeOf(TKey("")), MapKey: true},
	{Name: "TIntKey", Type: reflect.TypeOf(TIntKey(0)), MapKey: true},
	{Name: "TStructKey", Type: reflect.TypeOf(TStructKey{}), MapKey: true},
	{Name: "MBoth", Type: reflect.TypeOf(MBoth{}), MapKey: true},
	{Name: "URec", Type: reflect.TypeOf(URec{})},
	{Name: "UFail", Type: reflect.TypeOf(UFail{})},
	{Name: "Number", Type: reflect.TypeOf(json.Number(""))},
	{Name: "RawMessage", Type: reflect.TypeOf(json.RawMessage(nil))},
	{Name: "Duration", Type: reflect.TypeOf(time.Duration(0)), MapKey: true},
	{Name: "Tree", Type: reflect.TypeOf(Tree{}), Recurse: true},
	{Name: "List", Type: reflect.TypeOf(List{}), Recurse: true},
	{Name: "Mutual", Type: reflect.TypeOf(Mutual{}), Recurse: true},
	{Name: "EmbA", Type: reflect.TypeOf(EmbA{})},
	{Name: "EmbB", Type: reflect.TypeOf(EmbB{})},
	{Name: "EmbD", Type: reflect.TypeOf(EmbD{})},
	{Name: "Outer1", Type: reflect.TypeOf(Outer1{})},
	{Name: "Outer2", Type: reflect.TypeOf(Outer2{})},
	{Name: "Outer3", Type: reflect.TypeOf(Outer3{})},
	{Name: "Outer4", Type: reflect.TypeOf(Outer4{})},
	{Name: "D1", Type: reflect.TypeOf(D1{}), Recurse: true},
	{Name: "Wide", Type: reflect.TypeOf(Wide{})},
	{Name: "Omit", Type: reflect.TypeOf(Omit{})},
	{Name: "StrOpt", Type: reflect.TypeOf(StrOpt{})},
	{Name: "DupA", Type: reflect.TypeOf(dupa.T{})},
	{Name: "DupB", Type: reflect.TypeOf(dupb.T{})},
	{Name: "DupAU", Type: reflect.TypeOf(dupa.U{})},
	{Name: "DupBU", Type: reflect.TypeOf(dupb.U{})},
	{Name: "MErr", Type: reflect.TypeOf(MErr{}), Misbehav: true},
	{Name: "TErr", Type: reflect.TypeOf(TErr{}), Misbehav: true, MapKey: true},
}

var byName = map[string]*Entry{}

func init() {
	for i := range Entries {
		byName[Entries[i].Name] = &Entries[i]
	}
}

// Lookup finds a catalogue entry by name.
func Lookup(name string) *Entry { return byName[name] }
