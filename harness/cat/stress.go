package cat

import (
	"encoding/json"
	"errors"
	"runtime"
	"runtime/debug"
	"strconv"
	"strings"
	"sync/atomic"
)

// StressPlan is what the callbacks of the S* types do when sonic's generated code
// (or interpreter) calls them. It is set by the harness before a call.
var StressPlan []string

// StressHits counts callback entries that executed the plan.
var StressHits int64

var stressSink [][]byte

// churnRing keeps the small objects allocated by the "churn" action alive for a while, so that they occupy
// the heap slots a preceding collection has just freed.
var churnRing [8][]interface{}
var churnPos int

const churnJunk = "\xde\xad\xde\xad\xde\xad\xde\xad\xde\xad\xde\xad"

func churn() {
	var keep []interface{}
	js := churnJunk
	for i := 0; i < 800; i++ {
		// pointer-carrying objects of the small size classes (16, 24, 32, 48, 64 bytes) and pointer-free ones
		k := &SKey{K: js[:8+i%4]}
		v := &SVal{A: -0x21522153, S: js}
		p := &SPtr{N: -0x21522153}
		st := new(string)
		*st = js
		a2 := &[2]*string{st, st}
		a4 := &[4]*string{st, st, st, st}
		a6 := &[6]*string{st, st, st, st, st, st}
		a8 := &[8]*string{st, st, st, st, st, st, st, st}
		a10 := &[10]*string{st, st, st, st, st, st, st, st, st, st}
		a12 := &[12]*string{st, st, st, st, st, st, st, st, st, st, st, st}
		a14 := &[14]*string{st, st, st, st, st, st, st, st, st, st, st, st, st, st}
		a16 := &[16]*string{st, st, st, st, st, st, st, st, st, st, st, st, st, st, st, st}
		b := make([]byte, 8+8*(i%8))
		for j := range b {
			b[j] = 0xde
		}
		keep = append(keep, k, v, p, st, a2, a4, a6, a8, a10, a12, a14, a16, b)
	}
	churnRing[churnPos%len(churnRing)] = keep
	churnPos++
}

//go:noinline
func recurse(n int, buf *[64]byte) int {
	var local [64]byte
	local[0] = buf[0] + 1
	if n <= 0 {
		return int(local[0])
	}
	return recurse(n-1, &local) + int(local[1])
}

// Stress executes the current plan.
func Stress() {
	if len(StressPlan) == 0 {
		return
	}
	atomic.AddInt64(&StressHits, 1)
	for _, a := range StressPlan {
		switch {
		case a == "gc":
			runtime.GC()
		case a == "churn":
			churn()
		case a == "freeos":
			debug.FreeOSMemory()
		case strings.HasPrefix(a, "alloc:"):
			n, _ := strconv.Atoi(a[6:])
			for i := 0; i < n; i++ {
				stressSink = append(stressSink, make([]byte, 1<<20))
			}
			stressSink = nil
		case strings.HasPrefix(a, "grow:"):
			n, _ := strconv.Atoi(a[5:])
			var b [64]byte
			recurse(n, &b)
		case a == "stack":
			buf := make([]byte, 1<<16)
			runtime.Stack(buf, true)
		case a == "callers":
			pcs := make([]uintptr, 64)
			n := runtime.Callers(0, pcs)
			fr := runtime.CallersFrames(pcs[:n])
			for {
				_, more := fr.Next()
				if !more {
					break
				}
			}
		case a == "panic":
			func() {
				defer func() { recover() }()
				panic("stress")
			}()
		case a == "yield":
			runtime.Gosched()
		}
	}
}

// StressTail executes the plan once more at the end of a decoding callback, after the method's last use of
// its receiver: from here on only sonic's own frame keeps the object being decoded alive.
//
//go:noinline
func StressTail() {
	Stress()
}

// SVal: value-receiver MarshalJSON, pointer-receiver UnmarshalJSON, both running the stress plan.
type SVal struct {
	A int
	S string
}

type sValWire struct {
	Sv int    `json:"sv"`
	S  string `json:"s"`
}

func (s SVal) MarshalJSON() ([]byte, error) {
	Stress()
	return json.Marshal(sValWire{s.A, s.S})
}

func (s *SVal) UnmarshalJSON(b []byte) error {
	Stress()
	if string(b) == "null" {
		return nil
	}
	var w sValWire
	if err := json.Unmarshal(b, &w); err != nil {
		return errors.New("SVal: " + err.Error())
	}
	s.A, s.S = w.Sv, w.S
	StressTail()
	return nil
}

// SKey: text methods (usable as a map key), running the stress plan.
type SKey struct{ K string }

func (k SKey) MarshalText() ([]byte, error) {
	Stress()
	return []byte("sk:" + k.K), nil
}

func (k *SKey) UnmarshalText(b []byte) error {
	Stress()
	if !strings.HasPrefix(string(b), "sk:") {
		return errors.New("SKey: missing prefix")
	}
	k.K = string(b[3:])
	StressTail()
	return nil
}

// SPtr: pointer-receiver methods only.
type SPtr struct{ N int }

func (s *SPtr) MarshalJSON() ([]byte, error) {
	Stress()
	return []byte(strconv.Itoa(s.N * 2)), nil
}

func (s *SPtr) UnmarshalJSON(b []byte) error {
	Stress()
	n, err := strconv.Atoi(string(b))
	if err != nil {
		if string(b) == "null" {
			return nil
		}
		return err
	}
	s.N = n / 2
	StressTail()
	return nil
}

// SBox mixes the stress types with ordinary fields of every pointer-carrying kind.
type SBox struct {
	Before string
	V      SVal
	P      *SVal
	L      []SVal
	M      map[SKey]SVal
	T      SKey
	Q      *SPtr
	I      interface{}
	After  []string
	Tail   map[string]*string
	// fields with the omitzero option (always non-zero here: go1.23's encoding/json ignores the option)
	Z  SVal   `json:"z,omitzero"`
	ZP *SPtr  `json:"zp,omitzero"`
	ZS string `json:"zs,omitzero"`
}
