package scratch

import (
	"testing"

	"github.com/bytedance/sonic"
	"github.com/bytedance/sonic/ast"
)

func TestX(t *testing.T) {
	for _, doc := range []string{`[0,{"true":1},2,3]`, `[{"x":0},{"true":1},{"y":2},3]`, `[{"x":0},{"a":1,"true":[1]},{"y":2},3]`, `[0,{"true":1}]`, ` [0 , {"true":1 , "b":2} , [ 2 ] ] `} {
		for mode := 0; mode < 4; mode++ {
			root, _ := sonic.Get([]byte(doc))
			root.GetByPath(1, "true")
			it, _ := root.Values()
			var v ast.Node
			if mode&1 == 0 {
				for it.HasNext() {
					it.Next(&v)
					if mode&2 == 0 {
						v.Raw()
					}
				}
			} else {
				for it.Next(&v) {
					if mode&2 == 0 {
						v.Raw()
					}
				}
			}
			a, err := root.ArrayUseNumber()
			t.Logf("%s mode %d: %v %v", doc, mode, a, err)
		}
	}
}
