#!/usr/bin/env python3
"""Regenerates /verif/MANIFEST.json from the table below (kept next to the checks so the two do not drift)."""
import json, sys

ALL = ["C%02d" % i for i in range(1, 21)]

# id -> (technique, level text, level note, design ref)
CLAIMED = {
 "C10": ("property-based testing with fault/schedule injection (rapid): generated stress plans executed inside user callbacks called from generated code, in worker processes under hostile runtime settings; differential vs the unstressed run and encoding/json",
         "While sonic's generated code is on the stack, user callbacks force collections, stack copies, tracebacks, profiles, panics and allocation churn (refilling freed small slots with junk, also after the callback's last use of its receiver) according to a generated plan, and fully populated pointer arrays that fill an allocator size class are decoded into fresh destinations while collections run back to back, in worker processes started with GOGC=1, clobberfree/invalidptr/gccheckmark, SONIC_SYNC_GC, a background collector or a CPU profiler; the process must survive and results must equal the unstressed results, also after further collections and after the input string was dropped. Exploration with injected runtime events.",
         "Trusted: the Go runtime's own checks (invalidptr, checkmark, clobberfree) turn corruption into crashes; worker protocol.",
         "DESIGN.md §7 C10"),
 "C09": ("property-based testing (rapid): metamorphic relation over process history - the same probe calls after two generated preludes and after none, each in a fresh worker process, plus differential vs encoding/json",
         "Generated preludes (other types, other shapes, Pretouch/PretouchMany with varying inline and recursion depth, batches with identically printing types, cache fillers, hostile calls that leave pooled parsers/buffers/stacks in unusual states, bursts of rejected documents; workers also under SONIC_USE_OPTDEC, SONIC_USE_FASTMAP, SONIC_ENCODER_USE_VM and GOGC=off) are executed in fresh processes before the same probe calls; transcripts must not depend on the prelude and no process may crash. Exploration.",
         "Trusted: worker protocol; each transcript starts from a cold process, so cache state is exactly what the prelude made it.",
         "DESIGN.md §7 C09"),
 "C08": ("property-based testing (rapid) under the Go race detector: generated concurrent operation lists over freshly generated types, compared with a sequential oracle",
         "Generated groups of goroutines make first and repeated use of never-seen types through Marshal/Unmarshal/Valid/Get/Pretouch at the same time in a -race build; a race report, a panic or any result differing from the same call made sequentially is a violation. Exploration over the schedules that happened; absence of a report is not proof.",
         "Trusted: Go race detector (Go-side memory only), sequential re-execution as oracle.",
         "DESIGN.md §7 C08"),
 "C16": ("property-based testing (rapid) under the Go race detector: generated concurrent read lists on one shared ast.Node, compared with single-threaded reads of a fresh node",
         "A node declared concurrently readable is read by 2-8 goroutines with generated read operations, starting from the raw state, in a -race build; race reports, panics, blocked readers and results differing from single-threaded reads are violations. Exploration over the schedules that happened.",
         "Trusted: Go race detector, harness/ref tree for path generation.",
         "DESIGN.md §7 C16"),
 "C07": ("property-based testing / fuzzing (rapid): hostile input recipes x entry points executed in a supervised worker process, invariant on process survival, panics, progress and error-value usability",
         "Generated hostile inputs (deep nesting, huge tokens, raw and mutated bytes, cyclic and very deep Go values) are run through 18 entry points inside a worker process so that a fatal runtime error is observed and attributed; every error value is checked for a terminating, bounded message and an in-range position. Exploration; a case that gets no answer within 300 s is re-run alone in fresh workers with 600 s and 1200 s and reported as a hang only if it exceeds all three.",
         "Trusted: the worker protocol; limits (4096-byte message bound, 300/600/1200 s) are the harness's reading of 'bounded' and 'hang'.",
         "DESIGN.md §7 C07"),
 "C06": ("property-based testing (rapid): invariant over generated call histories (snapshots of returned buffers stay intact while older ones are scribbled), guard-page/canary geometry for EncodeInto, overwrite-the-input metamorphic check for decoders",
         "Generated histories of encode/decode calls with sizes straddling the pool thresholds are run while the harness keeps private copies of every returned buffer and overwrites buffers it owns; any later change of returned bytes, any dependence of EncodeInto's result on capacity/junk/prefix, any write outside the caller's capacity and any decoded value that changes when the input buffer is overwritten is a violation. Exploration.",
         "Trusted: guard page and canaries; single-goroutine histories here (concurrent use is C08).",
         "DESIGN.md §7 C06"),
 "C05": ("property-based testing (rapid): metamorphic relation over memory placement (heap copy vs alignment vs adversarial continuation vs guard page) with fault detection",
         "The same generated bytes (grammar documents, mutants, prefixes, and documents generated for the destination type of the typed entries and cut anywhere) are handed to 35 string/slice-taking entry points at different placements; the full observable result must be identical everywhere and a placement that ends at the edge of mapped memory must not fault (guard page + SetPanicOnFault). Exploration.",
         "Trusted: mmap/mprotect guard page, runtime fault-to-panic conversion for sonic's loader-registered native code. Two known native over-reads (literal tail, leading zero at the end) are classified by input shape.",
         "DESIGN.md §7 C05"),
 "C13": ("property-based testing (rapid): differential AVX2 vs SSE, routine level (both variants in one process) and API level (two worker processes under SONIC_MODE)",
         "Generated arguments are given to the AVX2 and the SSE build of every native routine side by side and all outputs compared bit for bit; generated decode/encode cases are replayed in worker processes started with SONIC_MODE=auto and SONIC_MODE=noavx2 and their transcripts compared. Exploration.",
         "Trusted: verifhook.LoadNatives exposes the same entry points the dispatch table uses; the worker protocol (props/worker.go).",
         "DESIGN.md §7 C13"),
 "C18": ("property-based testing (rapid): metamorphic relations between switch-off and switch-on results (one switch vs random setting of the others) and equality across equivalent entry points",
         "For each configuration switch a generated input is processed twice, with the switch off and on, under a random setting of all other switches, and the documented relation between the two results is checked (plus identity when the input lacks the feature); the convenience entry points and setter methods are compared with the corresponding frozen Config. Exploration.",
         "Trusted: encoding/json (HTMLEscape, Indent, Compact, DisallowUnknownFields), harness/ref.",
         "DESIGN.md §7 C18"),
 "C17": ("property-based testing (rapid): generated value streams x chunk plans x injected reader/writer faults, checked against per-value encoding/json results and an explicit terminal-condition oracle",
         "Generated streams are fed to the stream decoder through a reader that splits them according to a drawn chunk plan (single bytes, empty reads, data together with EOF, sizes around the buffer growth points) and optionally fails with a sentinel; values, progress (InputOffset), the number of successes and the terminal condition are checked. The stream encoder is driven with short and failing writers. Exploration.",
         "Trusted: encoding/json for each value; the harness's chunkReader/faultyWriter follow the io.Reader/io.Writer contracts.",
         "DESIGN.md §7 C17"),
 "C15": ("model-based property testing (rapid): operation sequences drawn as data, run against ast.Node and a plain ordered-tree model, observations and final MarshalJSON compared",
         "Generated histories of reads and mutations are applied to a real node (created lazily in six different ways) and to an ordered-map/array model; each return value, each read and the periodic full serialisation must agree with the model, so the order of lazy parsing or the loaded state must never show. Exploration over generated histories.",
         "Trusted: the model in props/c15.go (doc-comment semantics), harness/ref tokeniser. Two known findings (Len on lazy nodes; copies of lazy nodes share the parser) are recorded; the first is skipped in place, the second ends the sequence.",
         "DESIGN.md §7 C15"),
 "C14": ("property-based testing (rapid): reference ordered-tree parser + differential vs encoding/json on the addressed span, over generated documents, paths, options and entry points",
         "Generated documents and paths (drawn by walking the reference tree) are resolved through nine AST entry points under all search option combinations; existence, Raw text, typed accessors, Interface/Map/Array conversions, iterators and the Preorder event stream are compared with the reference tree and with encoding/json on the addressed span. Exploration.",
         "Trusted: harness/ref.Parse (ordered tree keeping duplicates), encoding/json, strconv.",
         "DESIGN.md §7 C14"),
 "C02": ("property-based testing (rapid): sandwich oracle (structural recogniser below, encoding/json.Valid above) over grammar-generated, mutated and raw inputs across 37 consuming entry points",
         "Generated valid documents, their structural mutants, a string-geometry sweep aimed at SIMD block edges and raw bytes are offered to every JSON-consuming entry point; anything the harness's structural recogniser rejects must be rejected, anything encoding/json.Valid accepts must be accepted by type-agnostic entry points, raw captures must be structural, decoder.Skip must delimit the first value. Exploration.",
         "Trusted: harness/ref.Structural and encoding/json.Valid. Two known findings (AST entry points ignore trailing bytes; native scanner accepts unterminated strings whose length is a multiple of 32) are classified and excluded.",
         "DESIGN.md §7 C02"),
 "C01": ("property-based testing (rapid): differential vs encoding/json over generated destination types (reflect-built, fresh per case) and type-directed / mutated documents",
         "Every case pairs a freshly generated destination type (new decoder program) with a document aimed at that type's binding rules and compares sonic with encoding/json: same accept/reject, deep-equal decoded value, structural malformation always rejected; the one tolerated leniency (skipped values checked for structure only) is decided by re-running the oracle on a sanitised document. Exploration over the generated distribution; listed known findings are classified narrowly and excluded so that the search continues behind them.",
         "Trusted: encoding/json go1.23.5, harness/ref (Structural, Sanitise, tokeniser). 14 known findings with classifiers in props/c01.go; any other difference is a violation.",
         "DESIGN.md §7 C01"),
 "C11": ("property-based testing (rapid): three-way differential jitdec vs optdec vs optdec+fastmap on C01's case stream under random decoder option sets",
         "The same generated (type, document, options) cases are decoded by all three decoder selections in one process; on valid documents they must agree on error-or-not and value, and all must reject structurally malformed input. Exploration.",
         "Trusted: verifhook.SetDecoder equals the env-var selection; harness/ref.Structural. Known optdec findings (float overflow anywhere, embedded pointer on null, lone minus under UseNumber, AsRaw panic) are classified and excluded.",
         "DESIGN.md §7 C11"),
 "C03": ("property-based testing (rapid): differential vs encoding/json over generated Go types (reflect-built, fresh per case) and values",
         "Thousands of never-seen struct/map/slice/pointer types per run are generated with reflect over a catalogue of named types carrying Marshaler/TextMarshaler methods; each generated value is marshaled by sonic.ConfigStd and by encoding/json and compared for error parity and token-for-token equal text (number literals byte-identical, strings by denoted value). Exploration over the generated distribution.",
         "Trusted: encoding/json go1.23.5, harness/ref tokeniser. One listed known finding (-0.0 under omitempty) is classified by re-running with the suspect values flipped.",
         "DESIGN.md §7 C03"),
 "C04": ("property-based testing (rapid): round trip through sonic and encoding/json decoders under all 512 encoder option masks + error oracle for unrepresentable values",
         "Generated lossless types/values are encoded under a drawn option mask; the text must be one well-formed value and decode (three decoders) to a value deep-equal (floats bit for bit) to the original up to the transformations the active options define. Unrepresentable values must produce errors, never malformed text. Exploration.",
         "Trusted: encoding/json, the normaliser in props/c04.go (documented rules only).",
         "DESIGN.md §7 C04"),
 "C12": ("property-based testing (rapid): differential JIT encoder vs VM encoder, byte identity under all option masks",
         "The same generated values (incl. error-producing ones) are encoded by both encoder back ends in one process under the same option mask and compared byte for byte / for error parity. Exploration.",
         "Trusted: verifhook.SetEncoderVM reproduces the SONIC_ENCODER_USE_VM selection; map iteration order is not an observable of either back end when SortMapKeys is off.",
         "DESIGN.md §7 C12"),
 "C19": ("property-based testing (rapid): differential vs encoding/json and strconv in both directions, boundary-directed literal generator; plus exhaustive enumeration of the float32 / int32 / uint32 sub-domains",
         "Generated number literals aimed at rounding boundaries, width boundaries, subnormals and overflow are decoded into every numeric destination by both decoder implementations and compared with encoding/json (accept/reject, value bit for bit) and strconv.ParseFloat; generated floats/integers are printed and compared byte for byte with encoding/json and parsed back. Exploration over the generated distribution; in addition the thorough tier enumerates all 2^32 float32 bit patterns, int32 and uint32 values (encode = strconv/encoding/json text, decode back to the same bits, narrower destinations accept exactly what fits) - complete for those sub-domains (evidence key sweeps[].complete), the quick tier takes a seed-selected 1/512 slice of them.",
         "Trusted: encoding/json and strconv of go1.23.5. Three listed known findings are classified narrowly and excluded (see known_findings.json); anything else that differs is a violation.",
         "DESIGN.md §7 C19"),
 "C20": ("property-based testing (rapid): differential vs encoding/json + unicode/utf8 + byte-wise reference unquoter, round trip, geometry sweep",
         "Generated byte strings and literal bodies at every length class, alignment and destination capacity are pushed through encoder.Quote, unquote.String/IntoBytes, encoder.HTMLEscape, utf8.Validate/ValidateString/CorrectWith and the same routines via Marshal/Unmarshal (value, map key, ,string field); each result is compared with its definition. Exploration: the oracle held on every generated case; absence is not established.",
         "Trusted: encoding/json, unicode/utf8, harness/ref (UnquoteRawBytes, CorrectUTF8, Scan). Only the natives selected on this CPU are exercised here (SSE vs AVX2 is C13).",
         "DESIGN.md §7 C20"),
}

PENDING_REASON = "check not built yet in this revision of /verif (planned: see DESIGN.md §7); not claimed until its quick tier runs clean on the unchanged tree"

def main():
    checks = []
    for pid in ALL:
        if pid not in CLAIMED:
            continue
        tech, text, note, ref = CLAIMED[pid]
        checks.append({
            "property_id": pid,
            "quick_cmd": "./vcheck run %s --tier quick" % pid,
            "thorough_cmd": "./vcheck run %s --tier thorough" % pid,
            "evidence_file": "/verif/evidence/%s.json" % pid,
            "replay_cmd_template": "./vcheck replay {path}",
            "engine": "vcheck",
            "level_claimed": {"category": "exploration", "text": text, "design_ref": ref},
            "level_note": note,
            "technique": tech,
        })
    m = {
        "version": 1,
        "setup_cmd": "./vcheck build",
        "hooks": {
            "guard": "verif",
            "enable": "go build tag: the harness builds /repo with `-tags verif` (package github.com/bytedance/sonic/verifhook and the verif_hook.go files)",
            "baseline_off_cmd": "cd /repo && for m in . ./external_jsonlib_test ./fuzz ./generic_test ./issue_test ./loader; do (cd /repo/$m && go test -json -vet=off -count=1 -timeout 25m ./...); done",
            "source_commits": HOOK_COMMITS,
            "add_only": True,
        },
        "engines": [{
            "name": "vcheck",
            "path": "/verif/harness",
            "serves_properties": sorted(CLAIMED),
            "kind_free_text": "Go harness: rapid v1.3.0 property tests (one serialisable case type per property, shrunk case = replay file), sharded and supervised by the vcheck driver which merges statistics into evidence and applies known_findings.json",
        }],
        "checks": checks,
        "notes": "Technique family: property-based testing and fuzzing. Known findings: /verif/known_findings.json. Replay: ./vcheck replay <case file>. VERIF_SEED selects the rapid seeds (seed*1000+shard+1).",
        "not_applicable": [{"property_id": p, "reason": NA.get(p, PENDING_REASON)} for p in ALL if p not in CLAIMED],
    }
    json.dump(m, open("/verif/MANIFEST.json", "w"), indent=1)
    print("claimed:", sorted(CLAIMED))

HOOK_COMMITS = ["67f9b22", "4bf3a1a"]
NA = {}
main()
