#!/usr/bin/env python3
"""keep_mutant.py: copy a confirmed seeded change from its scratch worktree into /verif/seeded/<id>/.

The table below is maintained by hand: for each change, which property it targets, what it needs to
manifest, and what was observed when the checks were run against it (git -C /repo apply; vcheck; git checkout).
"""
import json, os, shutil, sys

T = {
 "C01": dict(file="internal/decoder/jitdec/compiler.go", what="compileArray no longer clears a Go array when the JSON value is the empty array",
             needs="destination Go array [N]T already holding non-zero elements (pre-filled destination or duplicate key) and the JSON value exactly []",
             caught={"C01": "quick, every shard (~360 cases)"}, missed={"C11": "quick (both decoders share nothing here; optdec unaffected, comparison jit vs optdec not run on pre-filled arrays)"}, strengthened=""),
 "C02": dict(file="internal/decoder/jitdec/assembler_regabi_amd64.go", what="lspace: range check before the BTQ bitmap test dropped for characters 2..4 of a white-space run",
             needs="typed destination through the JIT; one of 12 byte values (` I J M 0xA0 ...) as the 2nd-4th character of a white-space run between tokens",
             caught={"C02": "quick, every shard after strengthening (1 shard of 8 before)"}, missed={"C01": "quick"},
             strengthened="C02 mutation kind 'stray-in-space': an arbitrary byte inside a white-space run between two tokens"),
 "C03": dict(file="internal/encoder/alg/mapiter.go", what="IsValidNumber accepts a json.Number that ends right after the exponent sign (1e+)",
             needs="a json.Number value holding a literal truncated after e+/e-",
             caught={"C03": "quick after strengthening (~1650 cases)"}, missed={"C03-before": "json.Number values were always well-formed", "C12": "quick (both back ends share the routine)"},
             strengthened="gen.NearNumber: json.Number values that are malformed or one edit away from a well-formed literal (C03, C12)"),
 "C04": dict(file="internal/encoder/alg/spec.go", what="HtmlEscape: sidx = ^nb instead of sidx += ^nb when the destination has to grow",
             needs="one escaping pass whose output overflows the destination buffer twice (escaped output of several KiB dense in < > & U+2028/9)",
             caught={"C04": "quick (worker crash, shard 6)", "C06": "quick", "C20": "quick after strengthening", "C18": "quick after strengthening", "C03": "quick after strengthening", "C12": "quick after strengthening"},
             missed={"C18-before": "no string dense enough", "C20-before": "no dense runs in HTMLEscape inputs"},
             strengthened="C20 data source 'dense runs'; generated Go strings get dense HTML runs up to 4000 characters"),
 "C05": dict(file="internal/decoder/jitdec/generic_regabi_amd64.go", what="bounds check removed in the '4 spaces' tail of the inlined space skipper of the generic decoder",
             needs="interface{} destination, truncated input ending with exactly four white-space bytes inside a container; result depends on the byte after the input",
             caught={"C05": "quick, every shard (~3900 cases)"}, missed={"C02": "quick", "C07": "quick"}, strengthened=""),
 "C06": dict(file="internal/encoder/encoder.go", what="ValidateString branch of encodeFinishWithPool returns the repaired buffer to the pool twice",
             needs="a Marshal with ValidateString of invalid UTF-8, then two encoder buffers live at once (re-entrant Marshal in MarshalJSON, EscapeHTML, or two goroutines)",
             caught={"C06": "quick, 2 cases", "C08": "quick after strengthening"}, missed={"C08-before": "no invalid UTF-8, no re-entrant or pool-swapping operations"},
             strengthened="C08 operations marshalbad / marshalhtml / marshalnested / marshalbig and invalid UTF-8 in values"),
 "C07": dict(file="internal/caching/fcache.go", what="FoldName writes a multi-byte rune into the spare capacity of its 32-byte scratch buffer without growing it",
             needs="struct destination, object key matching no field exactly with a multi-byte or invalid rune at offset 29..32 (or 61..64) of the key",
             caught={"C07": "quick after strengthening (~150 cases)", "C01": "quick, 2 shards of 8"}, missed={"C07-before": "struct destinations only saw generic documents"},
             strengthened="C07 documents with long keys (0..70 filler bytes + multi-byte / invalid rune) into struct destinations, one of them with a long non-ASCII tag"),
 "C08": dict(file="internal/encoder/encoder.go", what="same change as seeded/C06 (found independently by the agent given C08)",
             needs="see seeded/C06", caught={"C08": "quick after strengthening (3 cases)", "C06": "quick"}, missed={"C08-before": "see seeded/C06"}, strengthened="see seeded/C06"),
 "C09": dict(file="internal/encoder/x86/assembler_regabi_amd64.go", what="_asm_OP_recurse mixes the addressable flag into the direct/boxed decision",
             needs="pointer-shaped struct (single pointer field) encoded by value through the non-inlined call path: depth >= 3, or after Pretouch with MaxInlineDepth 1, or recursive types",
             caught={"C09": "quick (23 cases)", "C03": "quick (~490 cases)"}, missed={}, strengthened=""),
 "C10": dict(file="internal/decoder/jitdec/assembler_regabi_amd64.go", what="mapassign_utext keeps the freshly allocated TextUnmarshaler map key in a stack slot the GC does not scan",
             needs="map with TextUnmarshaler keys, a collection inside UnmarshalText after the method's last use of its receiver, and reuse of the freed slot",
             caught={"C10": "quick after strengthening (first case, worker crash or corrupted keys)"}, missed={"C10-before": "callbacks stressed the runtime only before using the receiver; nothing refilled freed small slots"},
             strengthened="cat.StressTail (plan executed again after the receiver's last use) and the 'churn' action (refill freed small size classes with junk); plans biased to gc,churn"),
 "C11": dict(file="internal/decoder/optdec/native.go", what="Parser.reset no longer clears Utf8Inv: a pooled parser keeps the 'input was repaired' flag",
             needs="SONIC_USE_OPTDEC=1; an earlier decode under ValidateString of a document with invalid UTF-8; then any decode of a string with backslash escapes",
             caught={"C11": "quick (~370 cases, in-process and cross-process)", "C09": "quick after strengthening"}, missed={"C09-before": "workers ran the default back ends only and preludes never decoded hostile documents", "C20": "quick", "C05": "quick"},
             strengthened="C09 'hostile' prelude calls and back-end environments (optdec, fastmap, VM) for the three workers of a case"),
 "C12": dict(file="internal/encoder/vm/vm.go", what="VM handler of OP_is_zero_2 reads one byte instead of two",
             needs="SONIC_ENCODER_USE_VM=1 (or a non-amd64 platform), int16/uint16 field tagged omitempty holding a non-zero multiple of 256",
             caught={"C12": "quick (68 cases)"}, missed={}, strengthened=""),
 "C13": dict(file="internal/native/dispatch_amd64.go", what="the SSE dispatch table binds S_vunsigned to the signed parser",
             needs="SONIC_MODE=noavx2 or a CPU without AVX2; unsigned destination; literal >= 2^63 or negative",
             caught={"C13": "quick (~410 cases; result differs between SONIC_MODE=auto and noavx2 workers)"}, missed={}, strengthened=""),
 "C14": dict(file="ast/buffer.go", what="linkedPairs.Get assumes objects over 16 members are indexed (true only once fully parsed)",
             needs="lazily parsed object with >= 18 members; lookup of a late key, then of an earlier key on the same node",
             caught={"C14": "quick after strengthening (~2650 cases)", "C15": "quick (~1400 cases)"}, missed={"C14-before": "one lookup per root node"},
             strengthened="C14 'warm' paths: up to three earlier lookups on the same root node, each judged"),
 "C15": dict(file="ast/node.go", what="Node.Move stops translating logical to physical indexes as soon as src is resolved",
             needs="array with a soft-deleted slot (UnsetByIndex of a non-last element) and a forward Move across it",
             caught={"C15": "quick after strengthening (8 cases)"}, missed={"C15-before": "3 of 40000 cases moved inside an array with holes"},
             strengthened="C15 array-root mode, sticky cursors, popn/getgone operations, wide-root mode; classes measure moves in arrays with holes"),
 "C16": dict(file="ast/node.go, ast/buffer.go", what="object key index built lazily on the first lookup instead of at parse time (lock-free read path now writes)",
             needs="concurrently readable node containing an object with >= 17 keys whose first key lookups come from several goroutines at once",
             caught={"C16": "quick (race detector / concurrent map write, first shards)"}, missed={}, strengthened=""),
 "C17": dict(file="internal/decoder/api/stream.go", what="StreamDecoder.lookAhead returns false when a read delivers data together with io.EOF",
             needs="reader returning (n>0, io.EOF) while a top-level number or literal runs to the end of the buffered data",
             caught={"C17": "quick, every shard (60 cases)"}, missed={}, strengthened=""),
 "C18": dict(file="sonic.go", what="frozenConfig.Unmarshal skips the copy of the input when CopyString is set",
             needs="Config with CopyString and UseNumber, []byte entry point, a number landing in interface{}, and the caller reusing its buffer afterwards",
             caught={"C18": "quick after strengthening (14 cases)", "C06": "quick after strengthening (61 cases)"}, missed={"C18-before": "results were compared without reusing the input buffer", "C06-before": "alias checks used the default configuration only"},
             strengthened="C18 overwrites its private input copy after every Unmarshal and prefers interface{} roots for number/copy switches; C06 alias checks under eight configurations"),
 "C19": dict(file="internal/decoder/jitdec/compiler.go", what="compileStructFieldStr emits the signed parse op for uint64 fields tagged ,string",
             needs="uint64 / *uint64 struct field with the string option and a quoted value above MaxInt64 or negative",
             caught={"C19": "quick (3 cases)"}, missed={"C01": "quick", "C11": "quick"}, strengthened=""),
 "C20": dict(file="internal/encoder/alg/spec.go", what="same change as seeded/C04 (found independently by the agent given C20)",
             needs="see seeded/C04", caught={"C20": "quick after strengthening (114 cases)"}, missed={"C20-before": "see seeded/C04"}, strengthened="see seeded/C04"),
}

# second round: agents were told what the first round had produced for the property and asked for something far from it
T.update({
 "C02-r2": dict(file="internal/decoder/jitdec/pools.go", what="freeStack no longer resets the depth of the pooled decoder stack (also produced independently by the round-2 agent given C09)",
             needs="history only: a few hundred decodes that abort with a syntax error inside open containers of a typed destination, no collection emptying the pool in between; then valid documents are rejected with 'unsupported value' (nesting budget used up)",
             caught={"C09": "quick after strengthening (14 cases)"}, missed={"C02": "quick (cases are single documents)", "C01": "quick", "C07": "quick", "C09-before": "preludes had no burst of rejected documents and the collector emptied the pools"},
             strengthened="C09 hostile prelude bit 64 (900 rounds of five documents rejected inside nested typed destinations) and worker environments GOGC=off / GOGC=off+optdec"),
 "C03-r2": dict(file="internal/encoder/alg/sort.go", what="heapSort (fallback of the map key sorter) never sifts the root while building the heap",
             needs="SortMapKeys, more than 11 keys in one partition sharing a prefix of at least 2*bitlen(n) bytes (timestamps, common_prefix_NN, int64 keys 1700000000000+i)",
             caught={"C03": "quick after strengthening (~440 cases)", "C18": "quick after strengthening", "C12": "quick after strengthening (order depends on map iteration)"}, missed={"C03-before": "generated maps had at most 4 entries", "C04": "quick (round trip is order-insensitive)"},
             strengthened="value generator: maps of 5..16 and 17..70 entries, half of them with clustered keys (long common prefix and short suffixes; consecutive integers around a large base)"),
 "C04-r2": dict(file="internal/encoder/compiler.go", what="omitempty emptiness test of uint16 fields emits the 1-byte zero test",
             needs="uint16 field tagged omitempty holding a non-zero multiple of 256",
             caught={"C04": "quick (~420 cases)", "C03": "quick (~3200 cases)"}, missed={"C12": "quick (shared by both back ends)"}, strengthened=""),
 "C05-r2": dict(file="internal/decoder/jitdec/assembler_regabi_amd64.go", what="_asm_OP_unquote guarantees one remaining byte but inspects two",
             needs="string field tagged ,string; input cut exactly after the backslash of the inner string; the byte after the input decides the result",
             caught={"C05": "quick after strengthening (several shards)"}, missed={"C05-before": "1 shard of 8: typed entries only saw generic documents whose keys never matched the destination", "C07": "quick"},
             strengthened="C05 generates documents for the destination type of typed entries (gen.DocFor) and cuts them anywhere; entries for cat.StrOpt (both decoders), cat.Omit, cat.Wide. By-catch: a genuine one-byte over-read for quoted json.Number at end of input, repaired in d20d58c"),
 "C06-r2": dict(file="ast/search.go", what="Searcher.getByPath skips the CopyReturn copy when the located value spans the whole input",
             needs="sonic.Get / GetCopyFromString with an empty path on a document without surrounding white space, and the caller reusing its buffer",
             caught={"C06": "quick (8 cases)"}, missed={"C14": "quick (does not reuse the input)"}, strengthened=""),
 "C07-r2": dict(file="utf8/utf8.go", what="CorrectWith no longer resets the stack pointer of the pooled state machine it borrows",
             needs="a validating call that rejects a document inside two or more containers, then a ValidateString repair of invalid UTF-8 in the same process",
             caught={"C07": "quick (persistent worker; panic)", "C02": "quick (~900 cases)", "C09": "quick (prelude + probe)"}, missed={"C20": "quick"}, strengthened=""),
 "C08-r2": dict(file="internal/resolver/resolver.go", what="ResolveStruct inserts into the shared field cache under the read lock",
             needs="two compilations meeting uncached struct types at the same time (first Marshal next to first Unmarshal, concurrent Pretouch)",
             caught={"C08": "quick (fatal error: concurrent map writes, first shards)"}, missed={}, strengthened=""),
 "C10-r2": dict(file="internal/encoder/compiler.go", what="OP_is_zero receives a pointer to a fresh heap copy of the field metadata; the JIT burns it into machine code where the collector cannot see it",
             needs="field tagged omitzero, amd64 JIT encoder; after the first Marshal a collection and reuse of the freed 80-byte slot, then another Marshal of the type",
             caught={"C10": "quick after strengthening (3 cases)"}, missed={"C10-before": "no omitzero field in the stressed type, churn stopped at 64-byte objects", "C03": "quick (omitzero is outside the go1.23 encoding/json oracle)", "C09": "quick"},
             strengthened="cat.SBox gets omitzero fields (kept non-zero); churn covers pointer-carrying size classes up to 128 bytes"),
})

T.update({
 "C11-r2": dict(file="internal/decoder/optdec/node.go", what="Node.AsSliceBytes treats escaped strings like plain ones (takes the raw input instead of the unescaped buffer)",
             needs="SONIC_USE_OPTDEC=1, a base64 destination ([]byte and friends) and a base64 string containing a JSON escape such as \\/ or \\n",
             caught={"C11": "quick (~500 cases)"}, missed={}, strengthened=""),
 "C12-r2": dict(file="internal/encoder/vm/vm.go", what="the VM's OP_drop no longer restores the flag word when a frame closes",
             needs="VM back end; a nested struct that writes no member followed by a sibling field (comma lost), or an empty non-nil slice inside a non-last element of a typed slice (element repeated)",
             caught={"C12": "quick (120 cases)"}, missed={}, strengthened=""),
 "C13-r2": dict(file="internal/native/sse/validate_utf8_fast_text_amd64.go", what="one byte of the SSE machine code: the surrogate-rejection constant of validate_utf8_fast can never match",
             needs="SSE natives (SONIC_MODE=noavx2); input containing an encoded surrogate half (ED A0..BF xx) followed by at least one more byte",
             caught={"C13": "quick (~3100 cases; C03-style case differs between SONIC_MODE=auto and noavx2)"}, missed={"C20": "quick (exercises the natives selected on this CPU only)"}, strengthened=""),
 "C15-r2": dict(file="ast/buffer.go", what="linkedPairs.Sort uses sort.Sort instead of sort.Stable",
             needs="SortKeys on an object with a duplicated key and more than 12 members",
             caught={"C15": "quick (~480 cases)"}, missed={}, strengthened=""),
})

T.update({
 "C16-r2": dict(file="ast/search.go", what="the CopyReturn branch of Searcher.getByPath returns early and builds the copied node without its mutex (ConcurrentRead honoured on the no-copy path only)",
             needs="ConcurrentRead together with CopyReturn (GetWithOptions / Searcher.GetByPathCopy), result an object or array read by two or more goroutines",
             caught={"C16": "quick (5 cases; concurrent and single-threaded reads differ / race detector)"}, missed={}, strengthened=""),
 "C17-r2": dict(file="internal/decoder/api/stream.go", what="StreamDecoder.Decode decodes the frame in place (no copy) when CopyString is set",
             needs="CopyString and UseNumber, numbers landing in interface{}, at least two values in the stream: json.Number values of earlier results point into the reused read buffer",
             caught={"C17": "quick (94 cases)", "C06": "quick after strengthening"}, missed={"C06-before": "the stream alias entry decoded one value with ConfigStd only"},
             strengthened="C06 stream alias entry decodes the document twice from one stream under each of the eight configurations and then overwrites everything it handed in"),
 "C19-r2": dict(file="internal/decoder/optdec/node.go", what="AsSliceU32 range check off by one (>= MaxUint32)",
             needs="SONIC_USE_OPTDEC=1, a []uint32 destination and an element equal to 4294967295",
             caught={"C19": "quick after strengthening (66 cases)"}, missed={"C19-before": "slice destinations covered []float32, []int16, [2]uint32, []interface{} only", "C11": "quick"},
             strengthened="C19 decodes every literal into slices of every numeric element kind (the alternative decoder has one routine per kind) and into map[string]interface{} / RawMessage"),
 "C20-r2": dict(file="utf8/utf8.go", what="CorrectWith appends the valid bytes that follow a full position stack only on the last chunk",
             needs="one input with more than 4096 invalid UTF-8 bytes and valid bytes between the 4096*k-th invalid byte and the next one",
             caught={"C20": "quick after strengthening (~1700 cases)"}, missed={"C20-before": "invalid runs stopped at 2500 units", "C03": "quick"},
             strengthened="C20 dense runs of 4095, 4096, 4097, 5000, 8192, 8193, 9000 units, optionally followed by valid text"),
})

T.update({
 "C02-r3": dict(file="internal/decoder/jitdec/compiler.go", what="compileStructBody: the key-matching sequence for the second and later members replaced by a jump back to the sequence of the first member, which starts with check_char '}'",
             needs="struct destination through the JIT and a comma (optionally followed by white space) directly before the closing brace of an object: {\"a\":1,}",
             caught={"C02": "quick after strengthening (every shard)", "C01": "quick after strengthening (every shard)"}, missed={"C02-before": "no mutation produced a trailing comma (dup-structural gives ',,')", "C01-before": "same"},
             strengthened="gen.Mutate kind 'extra-comma': a comma before a closing or after an opening bracket, five white-space forms. By-catch: [1,2,] accepted into a full fixed-size array on the unchanged tree (repaired, 34d231f)"),
 "C04-r3": dict(file="internal/encoder/encoder.go", what="ValidateString branch of encodeFinishWithPool: the corrected text stays in the pooled scratch buffer, which is then freed, and the result buffer is freed later as well: two pool entries over one backing array",
             needs="a pooled Marshal with ValidateString of invalid UTF-8 whose corrected output fits the pooled buffer, then a Marshal that needs two pooled buffers at once (nested Marshal, EscapeHTML, ValidateString again, two goroutines)",
             caught={"C06": "quick, first cases of every shard", "C08": "quick (~100 s, every shard)"}, missed={"C04": "quick (cases are single calls; the pool state left by one case is not what the next one needs)"}, strengthened=""),
 "C06-r3": dict(file="internal/encoder/x86/assembler_regabi_amd64.go", what="_asm_OP_i16 reserves 5 bytes instead of 6 before i64toa writes into the spare capacity (sign forgotten)",
             needs="JIT encoder, an int16 of -10000 or below emitted when exactly five bytes of capacity remain (EncodeInto with a caller buffer)",
             caught={"C06": "quick after strengthening (canary overwritten / fault at the guard page, 23 s)"}, missed={"C06-before": "EncodeInto values were decoded from JSON into interface{}: no typed integers", "C04": "quick", "C03": "quick (the text is correct)"},
             strengthened="C06 'into' cases with typed numbers of all fourteen kinds (extremes, powers of ten and neighbours) as scalar, slice, struct, pointer, map value, spare capacity 0..40"),
 "C09-r3": dict(file="internal/caching/pcache.go", what="_ProgramMap.insert masks the probe index before incrementing it: the linear probe no longer wraps at the end of the table",
             needs="two types whose hash selects the last bucket of a program cache (or a probe run reaching it): thousands of types, or chosen hashes",
             caught={"C09": "quick after strengthening (7 cases: worker panics, index out of range [4096])"}, missed={"C09-before": "a few dozen types per worker process: two of them in bucket 4095 has probability about 1e-4", "C08": "quick"},
             strengthened="C09 draws, in one case of three, three struct types whose runtime type hash selects one bucket (4095, 0 or 1234) of the 4096-bucket caches and probes each by value and by pointer"),
 "C11-r3": dict(file="internal/decoder/optdec/helper.go", what="SkipNumberFast no longer counts '+' as part of a number literal",
             needs="SONIC_USE_OPTDEC=1, a literal with e+ / E+, a destination that keeps the text (json.Number anywhere, interface{} with UseNumber inside a typed root)",
             caught={"C11": "quick (18 s, every shard: 0E+0 vs 0E)"}, missed={}, strengthened=""),
 "C12-r3": dict(file="internal/rt/base64_amd64.go, internal/rt/base64_compat.go", what="EncodeBase64 (VM only) appends the opening quote after the capacity check instead of before it",
             needs="VM back end, a non-empty []byte whose base64 text exactly fills the remaining capacity of the output buffer: panic 'encoder output buffer is too small'",
             caught={"C12": "quick after strengthening (17 s, every shard)"}, missed={"C12-before": "both back ends were only compared through encoder.Encode with pooled buffers of whatever capacity earlier cases left"},
             strengthened="C12 runs both back ends through EncodeInto as well, capacity = output length minus 0..13"),
 "C14-r3": dict(file="ast/visitor.go", what="traverser.decodeValue returns from the array branch without giving the nesting level back (objects stay balanced)",
             needs="one ast.Preorder call over a document with more than 4096 arrays in total, at any depth",
             caught={"C14": "quick after strengthening (75 cases)"}, missed={"C14-before": "documents had a few hundred containers at most"},
             strengthened="C14 flat documents of 4000..9000 sibling containers (about one case in twelve as drawn)"),
 "C15-r3": dict(file="ast/parser.go", what="skipNextPair unquotes a key only if the first escape lies after the first byte",
             needs="lazy object loaded pair by pair (Get/Index/iteration/Set on a still-lazy node) and a key starting with an escape sequence",
             caught={"C15": "quick (107 cases)", "C14": "quick (6 cases)"}, missed={}, strengthened=""),
 "C17-r3": dict(file="internal/encoder/stream.go", what="StreamEncoder.Encode shadows err in the newline write: a Writer failing exactly on the newline goes unreported",
             needs="stream encoder without SetIndent, newline not disabled, Writer accepting the payload and failing on the one-byte newline write",
             caught={"C17": "quick (regress case C17-encoder-newline-error and 46 cases)"}, missed={}, strengthened=""),
 "C19-r3": dict(file="internal/encoder/x86/assembler_regabi_amd64.go", what="_FM_exp32 written as 0x7f << 24: the JIT classifies finite float32 values of the top binade as NaN/Inf",
             needs="JIT encoder and a float32 of magnitude >= 2^127 (1 in 256 random bit patterns)",
             caught={"C19": "quick (179 cases)", "C03": "quick (359 cases)"}, missed={}, strengthened=""),
 "C20-r3": dict(file="internal/decoder/jitdec/generic_regabi_amd64.go", what="generic decoder: XORL moved between BTQ and SETCC clears the carry flag, so F_UNICODE_REPLACE is always passed to unquote",
             needs="UseUnicodeErrors, a lone surrogate escape, an interface{} / map[string]interface{} / []interface{} destination",
             caught={"C18": "quick (regress case C18-unicode-errors-froze and ~2100 cases)"}, missed={"C20": "quick (the routine-level check calls unquote with its own flags; the option plumbing is C18's)"}, strengthened=""),
})

def main():
    ids = sys.argv[1:] or sorted(T)
    for i in ids:
        src = f"/tmp/wt3-{i[:3]}/SEEDED" if i.endswith("-r3") else f"/tmp/wt2-{i[:3]}/SEEDED" if i.endswith("-r2") else f"/tmp/wt-{i}/SEEDED"
        dst = f"/verif/seeded/{i}"
        os.makedirs(dst, exist_ok=True)
        if os.path.isdir(src):
            shutil.copy(f"{src}/patch.diff", f"{dst}/patch.diff")
            shutil.copy(f"{src}/demo_test.go", f"{dst}/demo_test.go")
            if os.path.exists(f"{src}/notes.md"):
                shutil.copy(f"{src}/notes.md", f"{dst}/agent_notes.md")
            if os.path.exists(f"{src}/verify.log"):
                tail = open(f"{src}/verify.log", errors="replace").read().splitlines()[-1:]
            else:
                tail = []
        else:
            tail = []
        m = dict(T[i])
        meta = {
            "property": i[:3],
            "round": 3 if i.endswith("-r3") else 2 if i.endswith("-r2") else 1,
            "files_changed": m["file"],
            "change": m["what"],
            "needs_to_manifest": m["needs"],
            "confirmed_by_me": {
                "how": "tools/verify_mutant.sh in the agent's scratch worktree rebased on /repo HEAD: patch applies, go build ./..., demo passes without and fails with the change, pinned suite (all six modules, stable-pass list) passes with the change",
                "verdict": tail[0] if tail else "see DESIGN.md section 14",
            },
            "checks_run_against_it": "git -C /repo apply patch.diff; VERIF_SEED=0 ./vcheck run <id> --tier quick; git -C /repo checkout -- . (tools/try_mutant.sh)",
            "caught_by": m["caught"],
            "missed_by": m["missed"],
            "strengthening": m["strengthened"],
            "demonstration": "demo_test.go (copy to <worktree>/demo/demo_test.go; go test -vet=off -count=1 ./demo/)",
        }
        json.dump(meta, open(f"{dst}/meta.json", "w"), indent=1)
        print("kept", i, meta["confirmed_by_me"]["verdict"])

if __name__ == "__main__":
    main()
