#!/bin/bash
# baseline.sh [repo-dir]: the pinned suite (modules of /w/out/gomods.txt) with the verif guard OFF; prints failing tests that are on the stable-pass list.
repo=${1:-/repo}
unset GOFLAGS
export GOPROXY=off GOSUMDB=off GOTOOLCHAIN=local
rc=0
for m in . ./external_jsonlib_test ./fuzz ./generic_test ./issue_test ./loader; do
  MF=""
  gw=$(cd $repo/$m && go env GOWORK 2>/dev/null); if [ -z "$gw" ] || [ "$gw" = off ]; then MF="-mod=mod"; fi
  out=$( (cd $repo/$m && go test $MF -vet=off -count=1 -timeout 25m ./... 2>&1) )
  bad=$(echo "$out" | sed -n 's/^ *--- FAIL: \([^ ]*\).*/\1/p' | sort -u | grep -Fx -f /verif/tools/stable_pass.txt)
  echo "$out" | grep "^ok\|^FAIL\|^panic" | sed "s#^#[$m] #"
  if [ -n "$bad" ]; then echo "STABLE-FAIL in $m: $bad"; rc=1; fi
  if echo "$out" | grep -q "^panic:\|\[build failed\]\|\[setup failed\]"; then echo "PANIC/BUILD failure in $m"; rc=1; fi
done
echo "baseline rc=$rc"
exit $rc
