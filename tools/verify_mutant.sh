#!/bin/bash
# verify_mutant.sh <id> <worktree>: confirm, in the scratch worktree an agent worked in, that its change
#   (1) is exactly SEEDED/patch.diff on top of /repo HEAD, (2) builds, (3) passes the pinned baseline suite,
#   (4) makes SEEDED/demo_test.go fail, and that the demo passes without it.
# Writes <worktree>/SEEDED/verify.log and prints a one-line verdict.
id=$1; wt=$2
unset GOFLAGS
export GOPROXY=off GOSUMDB=off GOTOOLCHAIN=local
cd "$wt" || exit 3
log=$wt/SEEDED/verify.log; : > "$log"
say() { echo "$@" | tee -a "$log"; }
# (1) the tree is HEAD + patch
git stash list >> "$log"
git diff > /tmp/verify_$id.diff
git checkout -- . 2>>"$log"
# rebase the scratch worktree onto /repo's current HEAD (fix commits made since the agent started)
git checkout -q --detach "$(git -C /repo rev-parse HEAD)" 2>>"$log"
if ! git apply --check SEEDED/patch.diff 2>>"$log"; then say "$id: patch does not apply to HEAD"; exit 1; fi
rm -rf demo_v; mkdir demo_v; cp SEEDED/demo_test.go demo_v/demo_test.go
# (4b) demo passes without the change
if ! go test -vet=off -count=1 ./demo_v/ >>"$log" 2>&1; then say "$id: demo FAILS on the unchanged tree"; rm -rf demo_v; exit 1; fi
git apply SEEDED/patch.diff
# (2)
if ! go build ./... >>"$log" 2>&1; then say "$id: does not build"; exit 1; fi
# (4a) demo fails with the change
if go test -vet=off -count=1 ./demo_v/ >>"$log" 2>&1; then say "$id: demo PASSES with the change"; rm -rf demo_v; exit 1; fi
rm -rf demo_v
# (3) pinned suite
mv demo /tmp/verify_demo_$id 2>/dev/null
fails=0
for m in . ./loader ./generic_test ./external_jsonlib_test ./issue_test ./fuzz; do
  [ -d "$m" ] || continue
  [ -f "$m/go.mod" ] || continue
  out=$( (cd $m && go test -vet=off -count=1 -timeout 60m ./... 2>&1) )
  echo "$out" >> "$log"
  # only tests of the pinned stable-pass list count (a timing test outside it fails on the unchanged tree too)
  bad=$(echo "$out" | sed -n 's/^ *--- FAIL: \([^ /]*\).*/\1/p' | sort -u | grep -Fx -f /verif/tools/stable_pass.txt)
  # a failing stable test is re-run alone (timing tests such as TestPretouchSynteaRoot fail on a busy machine)
  still=""
  for tname in $bad; do
    okk=0
    for try in 1 2 3; do
      if (cd $m && go test -vet=off -count=1 -timeout 30m -run "^${tname}\$" ./... >>"$log" 2>&1); then okk=1; break; fi
    done
    [ $okk -eq 1 ] || still="$still $tname"
  done
  bad=$still
  if echo "$out" | grep -q "^panic:\|build failed\|setup failed"; then bad="$bad panic-or-build"; fi
  if [ -n "$bad" ]; then fails=$((fails+1)); say "$id: suite failure in module $m: $bad"; fi
done
mv /tmp/verify_demo_$id demo 2>/dev/null
rm -f /tmp/verify_$id.diff
if [ $fails -ne 0 ]; then say "$id: SUITE-FAILS"; exit 1; fi
say "$id: CONFIRMED builds, suite passes, demo fails with / passes without"
