#!/usr/bin/env python3
"""Regenerate the generated tables of DESIGN.md: 12.1 (fixed), 12.2 (known findings), 14 (seeded changes)
from known_findings.json and seeded/*/meta.json. Text outside the generated blocks is left alone."""
import json, glob, os, re

root = '/verif'
s = open(f'{root}/DESIGN.md').read()
kf = json.load(open(f'{root}/known_findings.json'))

def cell(x, n=None):
    x = str(x).replace('|', '\\|').replace('\n', ' ')
    return x if n is None or len(x) <= n else x[:n] + ' …'

# ---- 12.1
rows = ['| # | property, commit, what failed |', '|---|---|']
for i, f in enumerate(kf['fixed'], 1):
    rows.append(f'| {i} | {cell(f[len("fixed: "):] if f.startswith("fixed: ") else f)} |')
t121 = f"### 12.1 Repaired in `/repo` ({len(kf['fixed'])} commits)\n\n" + '\n'.join(rows) + '\n\n'

# ---- 12.2
rows = ['| id | property | what |', '|---|---|---|']
for f in kf['findings']:
    if f.get('status') != 'known':
        continue
    also = f.get('also') or []
    prop = f['property'] + (f" (+{','.join(also)})" if also else '')
    rows.append(f"| `{f['id']}` | {prop} | {cell(f['what'])} |")
t122 = """### 12.2 Known findings (listed, not repaired)

Not repaired because the defect lives in the shipped native machine code
(`internal/native/{avx2,sse}` byte arrays cannot be regenerated here), or the
repair would change documented behaviour, or it is larger than a minimal patch.

""" + '\n'.join(rows) + '\n\n'

a = s.index('### 12.1 Repaired')
b = s.index('## 13. False alarms')
s = s[:a] + t121 + t122 + s[b:]

# ---- 14
metas = []
for p in sorted(glob.glob(f'{root}/seeded/*/meta.json')):
    m = json.load(open(p))
    m['dir'] = os.path.basename(os.path.dirname(p))
    metas.append(m)
rows = ['| seeded change | what it changes | needs to manifest | caught by | missed by | strengthening it led to |', '|---|---|---|---|---|---|']
for m in metas:
    caught = '; '.join(f'{k}: {v}' for k, v in m['caught_by'].items()) or '-'
    missed = '; '.join(f'{k}: {v}' for k, v in m['missed_by'].items()) or '-'
    rows.append(f"| `seeded/{m['dir']}` | `{cell(m['files_changed'])}`: {cell(m['change'])} | {cell(m['needs_to_manifest'])} | {cell(caught)} | {cell(missed)} | {cell(m['strengthening'] or '-')} |")
hdr = s.index('## 14. Seeded changes')
intro_end = s.index('\n\n', s.index('and the table below', hdr)) + 2 if 'and the table below' in s[hdr:] else hdr
t14 = '\n'.join(rows) + '\n'
extra_path = f'{root}/seeded/NOTES.md'
extra = open(extra_path).read() if os.path.exists(extra_path) else ''
s = s[:intro_end] + t14 + '\n' + extra
open(f'{root}/DESIGN.md', 'w').write(s)
print('fixed', len(kf['fixed']), 'known', sum(1 for f in kf['findings'] if f.get('status') == 'known'), 'seeded', len(metas))
