#!/bin/bash
# try_mutant_par.sh <patch.diff> <tier> <prop>...: like try_mutant.sh, but the named checks run side by side.
patch=$1; tier=$2; shift 2
cd /repo || exit 3
if [ -n "$(git status --porcelain --untracked-files=no)" ]; then echo "/repo is not clean"; exit 3; fi
git apply "$patch" || { echo "patch does not apply"; exit 3; }
trap 'git -C /repo checkout -- . ; echo "[/repo restored]"' EXIT
cd /verif
./vcheck >/dev/null 2>&1
for p in "$@"; do
  (
  t0=$(date +%s)
  out=$(VERIF_SEED=${VERIF_SEED:-0} ./vcheck run $p --tier $tier 2>&1)
  rc=$?
  echo "== $p $tier rc=$rc $(( $(date +%s) - t0 ))s: $(echo "$out" | grep -m2 '^VIOLATION\|^INCONCLUSIVE' | tr '\n' ' ')"
  if [ $rc -eq 1 ]; then echo "$out" | grep -m1 "violated:" | cut -c1-500; fi
  ) &
done
wait
